#!/bin/bash
# usage: confirm_mutant.sh <seeded_dir> <scratch_worktree>
# Confirms in a scratch worktree (outside /repo and /verif) that the seeded change (patch.diff) compiles, that its
# demonstration fails with the change and passes without it, and that the repository's own suite still passes.
set -u
D=$(readlink -f $1); W=$2
git -C "$W" checkout -q -- . || exit 2
git -C "$W" status --short | grep -v '^??' && { echo "worktree not clean"; exit 2; }
build_demo() { g++ -std=c++17 -O1 -I"$W/include" -I/usr/include/eigen3 "$D/demo.cpp" -o "$W/demo_bin" -lpthread $(grep -q "omp.h\|_OPENMP" "$D/demo.cpp" && echo -fopenmp) 2> "$W/demo_build.log"; }
build_demo || { echo "demo does not build on clean tree"; tail -5 "$W/demo_build.log"; exit 2; }
( cd "$W" && timeout 600 ./demo_bin > demo_clean.out 2>&1 ); rc_clean=$?
git -C "$W" apply "$D/patch.diff" || { echo "patch does not apply"; exit 2; }
build_demo || { echo "demo does not build with the change"; git -C "$W" checkout -q -- .; exit 2; }
( cd "$W" && timeout 600 ./demo_bin > demo_mut.out 2>&1 ); rc_mut=$?
suite=$("$(dirname "$0")/run_repo_tests.sh" "$W" | tail -1)
git -C "$W" checkout -q -- .
rm -rf "$W/_build" "$W/demo_bin" "$W"/_build*.log "$W/demo_build.log"
echo "demo_clean_rc=$rc_clean demo_mutant_rc=$rc_mut suite='$suite'"
[ "$rc_clean" = "0" ] && [ "$rc_mut" != "0" ] && [ "$suite" = "SUITE PASSES" ] && { echo CONFIRMED; exit 0; }
echo NOT-CONFIRMED; exit 1
