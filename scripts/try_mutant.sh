#!/bin/bash
# usage: try_mutant.sh <seeded_dir> <tier> <prop> [<prop>...]
# Applies the seeded change to /repo's working tree, runs the given checks, and reverts /repo straight afterwards.
set -u
D=$(readlink -f $1); tier=$2; shift 2
cd "$(dirname "$0")/.."
git -C /repo status --short | grep -v '^??' && { echo "/repo not clean"; exit 2; }
git -C /repo apply "$D/patch.diff" || { echo "patch does not apply to /repo"; exit 2; }
trap 'git -C /repo checkout -q -- .' EXIT
for P in "$@"; do
  ./check $P --tier $tier > "$D/check_$P.$tier.log" 2>&1; rc=$?
  echo "$(basename $D) $P tier=$tier rc=$rc: $(grep -c '^VIOLATION' "$D/check_$P.$tier.log") violation lines; first: $(grep -m1 -A1 '^VIOLATION' "$D/check_$P.$tier.log" | tail -1 | cut -c1-160)"
done
