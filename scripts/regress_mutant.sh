#!/bin/bash
# usage: regress_mutant.sh <seeded_dir> <prop>...
# Re-runs a seeded change against the current checks: first the plain runs of each plan only (one build of the adapters),
# then, if nothing fired, the full plan.  Logs replace seeded/<id>/check_<prop>.quick.log.
set -u
D=$(readlink -f $1); shift
M=$(basename $D)
cd "$(dirname "$0")/.."
W=/tmp/mw/$M
rm -rf $W; mkdir -p /tmp/mw
git -C /repo worktree add -q --detach $W HEAD || exit 2
git -C $W apply "$D/patch.diff" || { echo "$M: patch does not apply"; git -C /repo worktree remove --force $W; exit 2; }
for P in "$@"; do
  how=plain-only
  VERIF_VARIANTS=plain VERIF_REPO=$W VERIF_EVIDENCE_DIR=/verif/build/mutant_runs/$M VERIF_REPLAY_DIR=/verif/build/mutant_runs/$M/replays ./check $P --tier quick > "$D/check_$P.quick.log" 2>&1; rc=$?
  if [ $rc -ne 1 ]; then
    how=full-plan
    VERIF_REPO=$W VERIF_EVIDENCE_DIR=/verif/build/mutant_runs/$M VERIF_REPLAY_DIR=/verif/build/mutant_runs/$M/replays ./check $P --tier quick > "$D/check_$P.quick.log" 2>&1; rc=$?
  fi
  echo "$M $P ($how) rc=$rc: $(grep -c '^VIOLATION' "$D/check_$P.quick.log") violation lines; first: $(grep -m1 -A1 '^VIOLATION' "$D/check_$P.quick.log" | tail -1 | cut -c1-120)"
done
git -C /repo worktree remove --force $W
