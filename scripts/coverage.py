#!/usr/bin/env python3
"""Line coverage of the library headers under the monitors' workloads.

Not a check and not a verdict: it answers "which lines of include/*.hpp did the executions that the monitors judged
actually run?", per property and in total, so that code no workload reaches is visible (the family decides nothing
about paths the workload never drives).  Uses the gcov-instrumented build variant "cov" (vbuild.py) and the plain runs
of each property's quick plan at a reduced volume.

usage: scripts/coverage.py [--scale 0.3] [--tier quick] [C01 C02 ...]
writes: coverage/summary.json, coverage/uncovered.txt, coverage/by_property.txt
"""
import argparse, glob, gzip, json, os, subprocess, sys
from concurrent.futures import ThreadPoolExecutor

VERIF = os.path.dirname(os.path.dirname(os.path.abspath(__file__)))
REPO = os.environ.get("VERIF_REPO", "/repo")
OBJ = os.path.join(VERIF, "build", "obj", "cov")
HEADERS = ["SplineTrajectory.hpp", "SplineOptimizer.hpp"]


def collect():
    """returns {header: {line: count}} summed over every instantiation in every object that has a .gcda"""
    res = {h: {} for h in HEADERS}
    fn = {h: {} for h in HEADERS}

    def one(gcda):
        r = subprocess.run(["gcov", "-j", "-t", "-o", OBJ, gcda], capture_output=True, cwd=OBJ)
        if r.returncode != 0 or not r.stdout:
            return None
        try:
            return json.loads(r.stdout)
        except ValueError:
            # several JSON documents may be concatenated (one per source); take them one by one
            docs, dec, txt, i = [], json.JSONDecoder(), r.stdout.decode(), 0
            while i < len(txt):
                while i < len(txt) and txt[i].isspace():
                    i += 1
                if i >= len(txt):
                    break
                d, i = dec.raw_decode(txt, i)
                docs.append(d)
            return {"files": [f for d in docs for f in d.get("files", [])]}

    gcdas = sorted(glob.glob(os.path.join(OBJ, "*.gcda")))
    with ThreadPoolExecutor(16) as ex:
        for doc in ex.map(one, gcdas):
            if not doc:
                continue
            for f in doc.get("files", []):
                base = os.path.basename(f["file"])
                if base not in res or "/include/" not in f["file"]:
                    continue
                for ln in f.get("lines", []):
                    n = ln["line_number"]
                    res[base][n] = res[base].get(n, 0) + ln["count"]
                for fu in f.get("functions", []):
                    k = (fu.get("demangled_name") or fu["name"]).split("(")[0]
                    k = k.split("<")[0] + "::" + k.split("::")[-1] if "<" in k else k
                    key = (fu["start_line"], k)
                    fn[base][key] = fn[base].get(key, 0) + fu.get("execution_count", 0)
    return res, fn, len(gcdas)


def main():
    ap = argparse.ArgumentParser()
    ap.add_argument("props", nargs="*")
    ap.add_argument("--scale", type=float, default=0.3)
    ap.add_argument("--tier", default="quick")
    a = ap.parse_args()
    props = a.props or ["C%02d" % i for i in range(1, 21)]
    outdir = os.path.join(VERIF, "coverage")
    os.makedirs(outdir, exist_ok=True)
    total = {h: {} for h in HEADERS}
    per_prop = {}
    env = dict(os.environ, VERIF_COVERAGE="1", VERIF_EVIDENCE_DIR=os.path.join(VERIF, "build", "cov_ev"),
               VERIF_REPLAY_DIR=os.path.join(VERIF, "build", "cov_ev", "replays"))
    for p in props:
        for g in glob.glob(os.path.join(OBJ, "*.gcda")):
            os.unlink(g)
        r = subprocess.run([os.path.join(VERIF, "check"), p, "--tier", a.tier, "--scale", str(a.scale)], env=env, capture_output=True, text=True)
        res, fn, nobj = collect()
        per_prop[p] = {h: sorted(n for n, c in res[h].items() if c > 0) for h in HEADERS}
        for h in HEADERS:
            for n, c in res[h].items():
                total[h][n] = total[h].get(n, 0) + c
        print("%s rc=%d objects=%d  %s" % (p, r.returncode, nobj, "  ".join(
            "%s %d/%d" % (h, sum(1 for c in res[h].values() if c > 0), len(res[h])) for h in HEADERS)), flush=True)
    summary = {"tier": a.tier, "scale": a.scale, "properties": props, "headers": {}}
    unc = []
    for h in HEADERS:
        src = open(os.path.join(REPO, "include", h), errors="replace").read().split("\n")
        lines = total[h]
        cov = sorted(n for n, c in lines.items() if c > 0)
        miss = sorted(n for n, c in lines.items() if c == 0)
        summary["headers"][h] = {"instrumented_lines": len(lines), "covered": len(cov), "uncovered": len(miss), "uncovered_lines": miss}
        unc.append("== %s: %d of %d instrumented lines executed by at least one judged execution; %d not reached" % (h, len(cov), len(lines), len(miss)))
        for n in miss:
            unc.append("%s:%d: %s" % (h, n, src[n - 1].rstrip() if n - 1 < len(src) else ""))
    json.dump(summary, open(os.path.join(outdir, "summary.json"), "w"), indent=1)
    open(os.path.join(outdir, "uncovered.txt"), "w").write("\n".join(unc) + "\n")
    with open(os.path.join(outdir, "by_property.txt"), "w") as f:
        for p in props:
            f.write("%s: %s\n" % (p, "  ".join("%s %d lines" % (h, len(per_prop[p][h])) for h in HEADERS)))
        # lines reached by exactly one property's workload (single point of reach)
        for h in HEADERS:
            owners = {}
            for p in props:
                for n in per_prop[p][h]:
                    owners.setdefault(n, []).append(p)
            single = {}
            for n, ps in owners.items():
                if len(ps) == 1:
                    single.setdefault(ps[0], []).append(n)
            f.write("-- %s: lines reached by exactly one property's workload\n" % h)
            for p in sorted(single):
                f.write("   %s: %d lines %s\n" % (p, len(single[p]), compress(sorted(single[p]))))
    print("\n".join(u for u in unc if u.startswith("==")))


def compress(ns):
    out, i = [], 0
    while i < len(ns):
        j = i
        while j + 1 < len(ns) and ns[j + 1] <= ns[j] + 2:
            j += 1
        out.append(str(ns[i]) if i == j else "%d-%d" % (ns[i], ns[j]))
        i = j + 1
    return ",".join(out)


if __name__ == "__main__":
    main()
