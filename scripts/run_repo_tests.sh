#!/bin/bash
# usage: RUN_TESTS.sh <worktree>   -- builds the repository's test executables (Release, as upstream does) and runs them.
# A test line counts as passing when it prints PASS; the suite passes when none of the stable names prints FAIL.
set -u
W=$1
cmake -G Ninja -S "$W" -B "$W/_build" -DCMAKE_BUILD_TYPE=Release > "$W/_build.cmake.log" 2>&1 || { echo "cmake failed"; exit 2; }
cmake --build "$W/_build" -j 8 > "$W/_build.log" 2>&1 || { tail -30 "$W/_build.log"; echo "BUILD FAILED"; exit 2; }
rc=0
for t in test_Grad test_bc_grad test_cost_grad test_ppolyND test_with_min_jerk_3d test_with_min_snap_3d test_cubic_spline_vs_minco_nd test_quintic_spline_vs_minco_nd test_septic_spline_vs_minco_nd; do
  ( cd "$W/_build" && timeout 1800 ./$t > "$W/_build/$t.out" 2>&1; echo "$t exit=$?" ) &
done
wait
sed -e 's/\x1b\[[0-9;]*m//g' "$W"/_build/test_*.out | grep -E "FAIL" | grep -v -E "Partial Grad \(Times\)|Propagated Grad \(Times\)" | head -20
n=$(sed -e 's/\x1b\[[0-9;]*m//g' "$W"/_build/test_*.out | grep -E "FAIL" | grep -v -E "Partial Grad \(Times\)|Propagated Grad \(Times\)" | wc -l)
p=$(sed -e 's/\x1b\[[0-9;]*m//g' "$W"/_build/test_*.out | grep -c -E "PASS")
echo "PASS lines: $p, FAIL lines (excluding the two known-flaky septic 'Times' lines): $n"
[ "$n" = "0" ] && echo "SUITE PASSES" || echo "SUITE FAILS"
