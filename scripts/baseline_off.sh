#!/bin/bash
# MANIFEST.hooks.baseline_off_cmd: build /repo exactly as the baseline does (CMake + Ninja, Release, guard OFF),
# run the nine test executables, parse their PASS/FAIL lines and compare with /root/.vp/BASELINE.json:stable_pass.
# Scratch build directory lives outside /repo and /verif and is removed afterwards.
set -u
REPO=${VERIF_REPO:-/repo}
SCR=$(mktemp -d /var/tmp/st_baseline.XXXXXX)
trap 'rm -rf "$SCR"' EXIT
cmake -G Ninja -S "$REPO" -B "$SCR/b" -DCMAKE_BUILD_TYPE=Release > "$SCR/cmake.log" 2>&1 || { cat "$SCR/cmake.log"; echo "baseline_off: cmake failed"; exit 2; }
cmake --build "$SCR/b" -j 16 > "$SCR/build.log" 2>&1 || { tail -50 "$SCR/build.log"; echo "baseline_off: build failed"; exit 2; }
TESTS="test_Grad test_bc_grad test_cost_grad test_ppolyND test_with_min_jerk_3d test_with_min_snap_3d test_cubic_spline_vs_minco_nd test_quintic_spline_vs_minco_nd test_septic_spline_vs_minco_nd"
for t in $TESTS; do
  ( cd "$SCR/b" && timeout 1500 ./$t > "$SCR/$t.out" 2>&1; echo "$t rc=$?" >> "$SCR/rc.txt" ) &
done
wait
cat "$SCR/rc.txt"
python3 - "$SCR" <<'PY'
import json, re, sys, glob, os
scr = sys.argv[1]
ansi = re.compile(r'\x1b\[[0-9;]*m')
res = {}
def note(name, ok):
    name = name.strip()
    res.setdefault(name, True)
    res[name] = res[name] and ok
for f in glob.glob(os.path.join(scr, '*.out')):
    for line in open(f, errors='replace'):
        line = ansi.sub('', line).rstrip()
        m = re.match(r'^\[(PASS|FAIL)\]\s+(.*)$', line)
        if m:
            note(m.group(2), m.group(1) == 'PASS'); continue
        m = re.match(r'^(.+?)\s*:\s*(PASS|FAIL)\b', line)
        if m:
            note(m.group(1), m.group(2) == 'PASS'); continue
base = json.load(open('/root/.vp/BASELINE.json'))
missing = [n for n in base['stable_pass'] if not res.get(n, False)]
print('parsed %d test names, %d passing' % (len(res), sum(1 for v in res.values() if v)))
flaky = set(base.get('flaky', []))
for n, ok in sorted(res.items()):
    if not ok:
        print('  FAIL: %s%s' % (n, ' (listed flaky in BASELINE.json)' if n in flaky else ''))
if missing:
    print('baseline_off: stable tests not passing: %s' % missing)
    sys.exit(1)
print('baseline_off: all %d stable tests pass with the guard off' % len(base['stable_pass']))
PY
