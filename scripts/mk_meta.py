#!/usr/bin/env python3
"""Writes seeded/<id>/meta.json from notes.txt, confirm.txt and the check logs present in each directory."""
import glob, json, os, re
root = os.path.join(os.path.dirname(os.path.abspath(__file__)), "..", "seeded")
for d in sorted(glob.glob(os.path.join(root, "C*"))):
    mid = os.path.basename(d)
    notes = open(os.path.join(d, "notes.txt"), errors="replace").read().strip() if os.path.exists(os.path.join(d, "notes.txt")) else ""
    confirm = open(os.path.join(d, "confirm.txt")).read().strip() if os.path.exists(os.path.join(d, "confirm.txt")) else "not yet confirmed"
    files = sorted(set(re.findall(r"^\+\+\+ b/(\S+)", open(os.path.join(d, "patch.diff")).read(), re.M)))
    runs = []
    for lg in sorted(glob.glob(os.path.join(d, "check_*.log"))):
        m = re.match(r"check_(C\d+)\.(\w+)\.log", os.path.basename(lg))
        txt = open(lg, errors="replace").read()
        viol = re.findall(r"^VIOLATION property=(\S+)", txt, re.M)
        mons = sorted(set(re.findall(r"^  monitor=(\S+)", txt, re.M)))
        incon = "INCONCLUSIVE" in txt or "HARNESS" in txt
        runs.append(dict(check=m.group(1), tier=m.group(2), detected=bool(viol), violation_lines=len(viol), monitors_that_fired=mons[:12], inconclusive=incon and not viol))
    blind = None
    for lg in sorted(glob.glob(os.path.join(d, "blind_check_*.log"))):
        txt = open(lg, errors="replace").read()
        ver = {"E": "a1e1af9 (before any round-3 report existed)", "F": "a1e1af9 (before any round-3 report existed)", "G": "5240e24 (before any round-4 report existed)",
               "H": "5240e24 (before any round-4 report existed)", "I": "3c554af (before any round-5 report existed)", "J": "3c554af (before any round-5 report existed)"}.get(mid[-1], "?")
        blind = dict(check_version="/verif commit " + ver, log=os.path.basename(lg),
                     detected=bool(re.findall(r"^VIOLATION property=", txt, re.M)))
    meta = dict(
        id=mid,
        breaks_property=mid[:3],
        source="independent sub-agent given only the property text and a scratch worktree of /repo (nothing from /verif)",
        files_changed=files,
        description_and_what_it_needs_to_manifest=notes,
        confirmation=dict(how="scripts/confirm_mutant.sh <dir> <scratch worktree>: demo built and run on the clean tree (must exit 0), with the change (must exit non-zero), repository suite (nine test executables, Release flags) run with the change",
                          result=confirm),
        checks_run=dict(how="scripts/try_mutant_wt.sh / scripts/try_mutant.sh: change applied to a scratch worktree of /repo (or to /repo itself and reverted straight afterwards), ./check <id> --tier <tier> pointed at it",
                        runs=runs),
        first_attempt=(open(os.path.join(d, "first_attempt.txt")).read().strip() if os.path.exists(os.path.join(d, "first_attempt.txt")) else "detected by the first version of the check that was run against it"),
        blind_run=blind,
        caught_by=sorted(set(r["check"] + ":" + r["tier"] for r in runs if r["detected"])),
        missed_by=sorted(set(r["check"] + ":" + r["tier"] for r in runs if not r["detected"])),
    )
    json.dump(meta, open(os.path.join(d, "meta.json"), "w"), indent=1)
    print(mid, "caught_by", meta["caught_by"], "missed_by", meta["missed_by"], "|", confirm[:60])
