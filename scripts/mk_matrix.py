#!/usr/bin/env python3
"""Prints the markdown catch-matrix rows (DESIGN.md section 9) from seeded/*/meta.json and summary.txt."""
import glob, json, os
root = os.path.join(os.path.dirname(os.path.abspath(__file__)), "..", "seeded")
for d in sorted(glob.glob(os.path.join(root, "C*"))):
    mid = os.path.basename(d)
    meta = json.load(open(os.path.join(d, "meta.json")))
    summ = open(os.path.join(d, "summary.txt")).read().strip() if os.path.exists(os.path.join(d, "summary.txt")) else ""
    b = meta.get("blind_run")
    first = ("blind: " + ("caught" if b["detected"] else "missed")) if b else "missed at first" if os.path.exists(os.path.join(d, "first_attempt.txt")) else "caught at first run"
    mons = []
    for r in meta["checks_run"]["runs"]:
        if r["detected"]:
            ms = [m for m in r["monitors_that_fired"] if "crash" not in m][:2] or r["monitors_that_fired"][:1]
            mons += ms
    caught = ", ".join(sorted(set(c.split(":")[0] for c in meta["caught_by"]))) or "—"
    missed = ", ".join(sorted(set(c.split(":")[0] for c in meta["missed_by"])))
    print("| %s | %s | %s%s | %s | %s |" % (mid, summ, caught, (" (not: %s)" % missed) if missed else "", "; ".join(sorted(set(mons))[:2]), first))
