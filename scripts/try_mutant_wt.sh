#!/bin/bash
# usage: try_mutant_wt.sh <seeded_dir> <tier> <prop> [<prop>...]
# Like try_mutant.sh but leaves /repo alone: a scratch worktree of /repo (under /tmp) gets the change applied and the
# checks are pointed at it through VERIF_REPO; evidence and replays of these runs go to build/mutant_runs/.
set -u
D=$(readlink -f $1); tier=$2; shift 2
M=$(basename $D)
cd "$(dirname "$0")/.."
W=/tmp/mw/$M
rm -rf $W; git -C /repo worktree prune; mkdir -p /tmp/mw
git -C /repo worktree add -q --detach $W HEAD || exit 2
git -C $W apply "$D/patch.diff" || { echo "$M: patch does not apply"; git -C /repo worktree remove --force $W; exit 2; }
for P in "$@"; do
  VERIF_REPO=$W VERIF_EVIDENCE_DIR=/verif/build/mutant_runs/$M VERIF_REPLAY_DIR=/verif/build/mutant_runs/$M/replays ./check $P --tier $tier > "$D/check_$P.$tier.log" 2>&1; rc=$?
  echo "$M $P tier=$tier rc=$rc: $(grep -c '^VIOLATION' "$D/check_$P.$tier.log") violation lines; first: $(grep -m1 -A1 '^VIOLATION' "$D/check_$P.$tier.log" | tail -1 | cut -c1-170)"
done
git -C /repo worktree remove --force $W
