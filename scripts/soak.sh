#!/bin/bash
# usage: scripts/soak.sh <tier> <seed> [props...]   -- runs the checks one after another, prints one line per check
cd "$(dirname "$0")/.."
tier=$1; seed=$2; shift 2
props=${@:-C01 C02 C03 C04 C05 C06 C07 C08 C09 C10 C11 C12 C13 C14 C15 C16 C17 C18 C19 C20}
mkdir -p build/soak
# soak runs do not touch the committed evidence files unless asked to (KEEP_EVIDENCE=1)
[ "${KEEP_EVIDENCE:-0}" = "1" ] || export VERIF_EVIDENCE_DIR=$PWD/build/soak/evidence
for P in $props; do
  s=$(date +%s)
  VERIF_SEED=$seed ./check $P --tier $tier > build/soak/$P.$tier.$seed.log 2>&1; rc=$?
  e=$(date +%s)
  echo "$P tier=$tier seed=$seed rc=$rc wall=$((e-s))s $(grep -c '^VIOLATION' build/soak/$P.$tier.$seed.log) violations $(grep -c '^KNOWN-FINDING' build/soak/$P.$tier.$seed.log) known"
  grep -E "^VIOLATION|INCONCLUSIVE" build/soak/$P.$tier.$seed.log | head -5
done
