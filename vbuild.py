"""Content-addressed build of the harness drivers against /repo's current working tree.

Every object file is keyed by sha256(compiler, flags, defines, the bytes of every file it can include from the
harness and from /repo/include).  A changed tree therefore always rebuilds exactly what depends on it; an unchanged
tree costs nothing.  Nothing lives under /tmp: the cache is /verif/build (gitignored).
"""
import concurrent.futures
import fcntl
import glob
import hashlib
import os
import shutil
import subprocess
import sys
import time

VERIF = os.path.dirname(os.path.abspath(__file__))
REPO = os.environ.get("VERIF_REPO", "/repo")
BUILD = os.path.join(VERIF, "build")
HARNESS = os.path.join(VERIF, "harness")
GUARD = "SPLINETRAJECTORY_VERIF"
EIGEN_INC = "/usr/include/eigen3"
JOBS = int(os.environ.get("VERIF_JOBS", "16"))

BASE = ["-std=gnu++17", "-ffp-contract=off", "-D_GLIBCXX_ASSERTIONS", "-D" + GUARD, "-Wno-deprecated-declarations"]
VARIANTS = {
    "plain": {"cxx": "g++", "cflags": ["-O2", "-g1"], "ldflags": []},
    "nanpoison": {"cxx": "g++", "cflags": ["-O2", "-g1", "-DEIGEN_INITIALIZE_MATRICES_BY_NAN"], "ldflags": []},
    "asan": {"cxx": "g++",
             "cflags": ["-O1", "-g", "-fno-omit-frame-pointer", "-fsanitize=address,undefined", "-fno-sanitize-recover=all"],
             "ldflags": ["-fsanitize=address,undefined"]},
    "tsan": {"cxx": "g++", "cflags": ["-O1", "-g", "-fsanitize=thread"], "ldflags": ["-fsanitize=thread"]},
    "omp": {"cxx": "g++", "cflags": ["-O2", "-g1", "-fopenmp"], "ldflags": ["-fopenmp"]},
    # a documented Eigen build option of the USER's translation unit: matrices without an explicit storage order are row-major
    "rowmajor": {"cxx": "g++", "cflags": ["-O2", "-g1", "-DEIGEN_DEFAULT_TO_ROW_MAJOR"], "ldflags": []},
    # line coverage of the library headers under the monitors' workloads (scripts/coverage.py; not part of any check)
    "cov": {"cxx": "g++", "cflags": ["-O1", "-g1", "--coverage", "-fprofile-update=atomic"], "ldflags": ["--coverage"]},
}

QUICK_DIMS = [1, 2, 3, 4, 10]
ALL_DIMS = list(range(1, 11))
PPOLY_CELLS = [(d, o) for d in (1, 2, 3, 6) for o in (-1, 4, 6, 8, 12)]
OPT_DIMS = [1, 2, 3, 4]


def _sha(*parts):
    h = hashlib.sha256()
    for p in parts:
        if isinstance(p, str):
            p = p.encode()
        h.update(p)
        h.update(b"\0")
    return h.hexdigest()


_file_hash_cache = {}


def _fhash(path):
    st = os.stat(path)
    k = (path, st.st_mtime_ns, st.st_size)
    if k not in _file_hash_cache:
        with open(path, "rb") as f:
            _file_hash_cache[k] = hashlib.sha256(f.read()).hexdigest()
    return _file_hash_cache[k]


def harness_headers():
    hs = sorted(glob.glob(os.path.join(HARNESS, "**", "*.hpp"), recursive=True))
    return hs


def repo_headers(which):
    return [os.path.join(REPO, "include", w) for w in which]


# harness headers each kind of TU can include (transitively); None = all of them (drivers)
H_IFACE = ["common/eigen_assert_hook.hpp", "common/iface.hpp"]
H_OPT = H_IFACE + ["common/iface_opt.hpp", "common/costprog.hpp", "common/rng.hpp", "common/user_maps.hpp"]


class TU:
    def __init__(self, src, defines=(), repo=("SplineTrajectory.hpp",), tag=None, hdeps=None):
        self.src = os.path.join(HARNESS, src)
        self.defines = list(defines)
        self.repo = list(repo)
        self.tag = tag or os.path.basename(src)
        self.hdeps = hdeps

    def key(self, variant):
        v = VARIANTS[variant]
        hs = harness_headers() if self.hdeps is None else [os.path.join(HARNESS, h) for h in self.hdeps]
        deps = [self.src] + hs + repo_headers(self.repo)
        return _sha(v["cxx"], " ".join(BASE + v["cflags"]), " ".join(self.defines), *[_fhash(d) for d in deps])

    def cmd(self, variant, out):
        v = VARIANTS[variant]
        return [v["cxx"]] + BASE + v["cflags"] + ["-I" + HARNESS, "-I" + os.path.join(REPO, "include"), "-I" + EIGEN_INC] + \
            ["-D" + d for d in self.defines] + ["-c", self.src, "-o", out]


def spline_adapters(dims, orders=(3, 5, 7)):
    return [TU("adapters/spline_adapter.cpp", ["VORDER=%d" % o, "VDIM=%d" % d], tag="spline_%d_%d" % (o, d), hdeps=H_IFACE + ["adapters/ppoly_adapter_impl.hpp"]) for o in orders for d in dims]


def ppoly_adapters(cells=PPOLY_CELLS):
    return [TU("adapters/ppoly_adapter.cpp", ["VDIM=%d" % d, "VPORD=%d" % o], tag="ppoly_%d_%d" % (d, o), hdeps=H_IFACE + ["adapters/ppoly_adapter_impl.hpp"]) for d, o in cells]


def opt_adapters(dims=OPT_DIMS, orders=(3, 5, 7)):
    both = ("SplineTrajectory.hpp", "SplineOptimizer.hpp")
    return [TU("adapters/opt_adapter.cpp", ["VORDER=%d" % o, "VDIM=%d" % d], repo=both, tag="opt_%d_%d" % (o, d), hdeps=H_OPT) for o in orders for d in dims]


COMMON = [TU("common/oracle.cpp", repo=(), hdeps=["common/oracle.hpp", "common/iface.hpp"]), TU("common/registry.cpp", repo=(), hdeps=H_OPT)]
COSTPROG = TU("common/costprog.cpp", repo=(), hdeps=["common/costprog.hpp", "common/rng.hpp"])


def target(name, tier="quick", variant="plain"):
    """returns (list of TUs, extra link libs).  Sanitizer / poisoning variants use a reduced set of cells (one per
    structural class: DIM=1 column-major, DIM=3 fixed small, DIM=4 the generic >3 branch); drivers enumerate the
    cells that are registered, so the reduction needs no other change."""
    thorough = tier == "thorough"
    reduced = variant in ("asan", "nanpoison", "omp", "tsan", "rowmajor")
    if name == "spline_driver":
        dims = [1, 3, 4] if reduced else (ALL_DIMS if thorough else QUICK_DIMS)
        return [TU("spline_driver.cpp", repo=())] + COMMON + spline_adapters(dims), ["-lquadmath"]
    if name == "ppoly_driver":
        cells = [(d, o) for d in (1, 3) for o in (-1, 4, 8, 12)] if reduced else PPOLY_CELLS
        return [TU("ppoly_driver.cpp", repo=())] + COMMON + ppoly_adapters(cells) + spline_adapters([1, 3]), ["-lquadmath"]
    if name == "opt_driver":
        dims = [1, 3] if reduced else OPT_DIMS
        return [TU("opt_driver.cpp", repo=()), COSTPROG] + COMMON + opt_adapters(dims) + spline_adapters(dims), ["-lquadmath", "-lpthread"]
    if name == "conc_driver":
        both = ("SplineTrajectory.hpp", "SplineOptimizer.hpp")
        return [TU("conc_driver.cpp", repo=both), COSTPROG], ["-lpthread"]
    if name == "timemap_driver":
        both = ("SplineTrajectory.hpp", "SplineOptimizer.hpp")
        return [TU("timemap_driver.cpp", repo=both)], []
    raise KeyError(name)


class BuildError(Exception):
    pass


def _compile(tu, variant, log):
    key = tu.key(variant)
    objdir = os.path.join(BUILD, "obj", variant)
    os.makedirs(objdir, exist_ok=True)
    out = os.path.join(objdir, key[:32] + ".o")
    if os.path.exists(out):
        os.utime(out, None)
        return out, False
    tmp = out + ".tmp%d" % os.getpid()
    t0 = time.time()
    r = subprocess.run(tu.cmd(variant, tmp), capture_output=True, text=True)
    if r.returncode != 0:
        try:
            os.unlink(tmp)
        except OSError:
            pass
        raise BuildError("compile failed: %s [%s]\n%s" % (tu.tag, variant, r.stderr[-4000:]))
    os.replace(tmp, out)
    log("  compiled %s [%s] %.1fs" % (tu.tag, variant, time.time() - t0))
    return out, True


def build_many(specs, log=lambda s: print(s, file=sys.stderr)):
    """specs: list of (name, variant, tier).  Compiles every missing object of all of them in ONE pool (so that the
    long translation units of different drivers overlap), then links.  Returns {spec: binary path}."""
    os.makedirs(BUILD, exist_ok=True)
    lockf = open(os.path.join(BUILD, ".lock"), "w")
    fcntl.flock(lockf, fcntl.LOCK_EX)
    try:
        plan = {}
        jobs = {}
        for spec in specs:
            name, variant, tier = spec
            tus, libs = target(name, tier, variant)
            keys = [tu.key(variant) for tu in tus]
            bkey = _sha(name, variant, " ".join(libs), *keys)[:32]
            bindir = os.path.join(BUILD, "bin", variant)
            os.makedirs(bindir, exist_ok=True)
            binp = os.path.join(bindir, "%s-%s" % (name, bkey))
            plan[spec] = (binp, tus, libs)
            if os.path.exists(binp):
                os.utime(binp, None)
                continue
            for tu, k in zip(tus, keys):
                jobs[(k, variant)] = (tu, variant)
        t0 = time.time()
        if jobs:
            # longest first: driver main TUs, then septic adapters
            def weight(j):
                tu = j[0]
                w = 0 if "adapter" in tu.src else 100
                w += 10 * sum(1 for d in tu.defines if d == "VORDER=7") + 5 * sum(1 for d in tu.defines if d == "VORDER=5")
                return -w
            ordered = sorted(jobs.values(), key=weight)
            with concurrent.futures.ThreadPoolExecutor(max_workers=JOBS) as ex:
                futs = [ex.submit(_compile, tu, variant, log) for tu, variant in ordered]
                for f in futs:
                    f.result()
        out = {}
        for spec, (binp, tus, libs) in plan.items():
            name, variant, tier = spec
            if not os.path.exists(binp):
                objs = [_compile(tu, variant, log)[0] for tu in tus]
                v = VARIANTS[variant]
                tmp = binp + ".tmp%d" % os.getpid()
                r = subprocess.run([v["cxx"], "-o", tmp] + objs + v["ldflags"] + libs, capture_output=True, text=True)
                if r.returncode != 0:
                    raise BuildError("link failed: %s [%s]\n%s" % (name, variant, r.stderr[-4000:]))
                os.replace(tmp, binp)
                log("built %s [%s/%s]" % (name, variant, tier))
            out[spec] = binp
        if jobs:
            log("build phase %.1fs (%d objects compiled)" % (time.time() - t0, len(jobs)))
            prune()
        return out
    finally:
        fcntl.flock(lockf, fcntl.LOCK_UN)
        lockf.close()


def build(name, variant="plain", tier="quick", log=lambda s: print(s, file=sys.stderr)):
    """Builds (or reuses) the driver binary; returns its path."""
    return build_many([(name, variant, tier)], log)[(name, variant, tier)]


def prune(max_bytes=int(os.environ.get("VERIF_CACHE_BYTES", str(6 * 1024 ** 3)))):
    """LRU prune of the cache (objects and binaries) down to max_bytes."""
    files = []
    for root, _, names in os.walk(BUILD):
        if os.path.basename(root) == "soak":
            continue  # logs of scripts/soak.sh
        for n in names:
            if n == ".lock" or ".tmp" in n:
                continue
            p = os.path.join(root, n)
            try:
                st = os.stat(p)
            except OSError:
                continue
            files.append((st.st_mtime, st.st_size, p))
    total = sum(f[1] for f in files)
    if total <= max_bytes:
        return
    files.sort()
    for mt, sz, p in files:
        if total <= max_bytes * 0.8:
            break
        try:
            os.unlink(p)
            total -= sz
        except OSError:
            pass


if __name__ == "__main__":
    import argparse
    ap = argparse.ArgumentParser()
    ap.add_argument("name")
    ap.add_argument("--variant", default="plain")
    ap.add_argument("--tier", default="quick")
    a = ap.parse_args()
    print(build(a.name, a.variant, a.tier))
