#!/bin/bash
# MANIFEST.setup_cmd: offline toolchain probe + warm build of every driver the quick checks need, for the current
# /repo working tree.  (Thorough-tier drivers are built on first use; the cache lives in /verif/build.)
set -e
cd "$(dirname "$0")"
for t in g++ python3 cmake ninja valgrind; do command -v $t >/dev/null || { echo "setup: missing tool $t"; exit 2; }; done
test -f /usr/include/eigen3/Eigen/Dense || { echo "setup: Eigen headers not found"; exit 2; }
echo 'int main(){}' > build_probe.cpp 2>/dev/null || true
mkdir -p build evidence replays
for f in address thread; do g++ -fsanitize=$f -x c++ - -o build/.probe_$f <<< 'int main(){return 0;}' || { echo "setup: -fsanitize=$f unavailable"; exit 2; }; done
rm -f build_probe.cpp build/.probe_*
python3 ./check all --prebuild --tier quick
echo "setup: done"
