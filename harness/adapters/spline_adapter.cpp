// Compiled once per (VORDER, VDIM): wraps Cubic/Quintic/SepticSplineND<VDIM> behind vf::ISpline.
#include "../common/eigen_assert_hook.hpp"
#include "SplineTrajectory.hpp"
#include "../common/iface.hpp"
#include "ppoly_adapter_impl.hpp"

#ifndef VORDER
#error "VORDER required"
#endif
#ifndef VDIM
#error "VDIM required"
#endif

namespace
{
using namespace vf;
namespace ST = SplineTrajectory;

template <int ORDER, int DIM>
struct SplineSel;
template <int DIM>
struct SplineSel<3, DIM>
{
    using type = ST::CubicSplineND<DIM>;
};
template <int DIM>
struct SplineSel<5, DIM>
{
    using type = ST::QuinticSplineND<DIM>;
};
template <int DIM>
struct SplineSel<7, DIM>
{
    using type = ST::SepticSplineND<DIM>;
};

template <int ORDER, int DIM>
struct SplineAdapter final : ISpline
{
    using S = typename SplineSel<ORDER, DIM>::type;
    using Mat = typename S::MatrixType;
    using Vec = typename S::VectorType;
    using G = typename S::Gradients;
    using BS = typename S::BoundaryStateGrads;
    using TT = typename S::TrajectoryType;
    S own;
    const TT *held; // reference to the exposed trajectory taken once, right after construction, and kept across updates

    SplineAdapter() : held(&own.getTrajectory()) {}
    explicit SplineAdapter(const S &s) : own(s), held(&own.getTrajectory()) {}
    static S construct(const Problem &p, int mode)
    {
        if (g_routes.args == 2)
        { // every argument a named lvalue
            std::vector<double> T = p.T, tp = p.timePoints();
            Mat m = toMat(p.P);
            auto b = toBC(p.bc);
            double t0 = p.t0;
            return mode == 0 ? S(T, m, t0, b) : mode == 1 ? S(tp, m, b) : mode == 2 ? S(T, m, t0) : S(tp, m);
        }
        if (g_routes.args == 1) // every argument a temporary
            return mode == 0   ? S(std::vector<double>(p.T), toMat(p.P), double(p.t0), toBC(p.bc))
                   : mode == 1 ? S(p.timePoints(), toMat(p.P), toBC(p.bc))
                   : mode == 2 ? S(std::vector<double>(p.T), toMat(p.P), double(p.t0))
                               : S(p.timePoints(), toMat(p.P));
        return mode == 0   ? S(p.T, toMat(p.P), p.t0, toBC(p.bc))
               : mode == 1 ? S(p.timePoints(), toMat(p.P), toBC(p.bc))
               : mode == 2 ? S(p.T, toMat(p.P), p.t0)
                           : S(p.timePoints(), toMat(p.P));
    }
    SplineAdapter(const Problem &p, int mode) : own(construct(p, mode)), held(&own.getTrajectory()) { prequery(); }

    // how the exposed trajectory is reached (g_routes.access)
    template <class F>
    auto withTraj(F &&f) const
    {
        switch (g_routes.access)
        {
        case 1:
            return f(own.getPPoly());
        case 2:
        {
            TT c = own.getTrajectoryCopy();
            return f(c);
        }
        case 3:
        {
            TT c = own.getPPolyCopy();
            return f(c);
        }
        case 4:
            return f(*held);
        default:
            return f(own.getTrajectory());
        }
    }

    static Mat toMat(const MatrixXd &m)
    {
        Mat r(m.rows(), DIM);
        for (int i = 0; i < m.rows(); ++i)
            for (int j = 0; j < DIM; ++j)
                r(i, j) = m(i, j);
        return r;
    }
    static MatrixXd fromMat(const Mat &m)
    {
        MatrixXd r(m.rows(), DIM);
        for (int i = 0; i < m.rows(); ++i)
            for (int j = 0; j < DIM; ++j)
                r(i, j) = m(i, j);
        return r;
    }
    static ST::BoundaryConditions<DIM> toBC(const BC &b)
    {
        ST::BoundaryConditions<DIM> r;
        for (int j = 0; j < DIM; ++j)
        {
            r.start_velocity(j) = b.sv(j);
            r.start_acceleration(j) = b.sa(j);
            r.start_jerk(j) = b.sj(j);
            r.end_velocity(j) = b.ev(j);
            r.end_acceleration(j) = b.ea(j);
            r.end_jerk(j) = b.ej(j);
        }
        return r;
    }
    static BC fromBC(const ST::BoundaryConditions<DIM> &b)
    {
        BC r;
        r.setZero(DIM);
        for (int j = 0; j < DIM; ++j)
        {
            r.sv(j) = b.start_velocity(j);
            r.sa(j) = b.start_acceleration(j);
            r.sj(j) = b.start_jerk(j);
            r.ev(j) = b.end_velocity(j);
            r.ea(j) = b.end_acceleration(j);
            r.ej(j) = b.end_jerk(j);
        }
        return r;
    }
    static MatrixXd fromBS(const BS &b)
    {
        MatrixXd r = MatrixXd::Zero(4, DIM);
        for (int j = 0; j < DIM; ++j)
        {
            r(0, j) = b.p(j);
            r(1, j) = b.v(j);
            if constexpr (ORDER >= 5)
                r(2, j) = b.a(j);
            if constexpr (ORDER >= 7)
                r(3, j) = b.j(j);
        }
        return r;
    }
    static Grads fromG(const G &g)
    {
        Grads r;
        r.inner = fromMat(g.inner_points);
        r.times = g.times;
        r.start = fromBS(g.start);
        r.end = fromBS(g.end);
        return r;
    }

    // held-reference consumption (g_routes.hold): `call` and `other` return exactly what the library returns
    template <class F1, class F2, class Conv>
    static auto consume(F1 &&call, F2 &&other, Conv &&conv)
    {
        if (g_routes.hold)
        {
            const auto &r = call();
            const auto &r2 = other();
            (void)r2;
            return conv(r);
        }
        return conv(call());
    }
    // one extra read-only query right after a construction / update (g_routes.prequery)
    void prequery()
    {
        if (!g_routes.prequery || !own.isInitialized())
            return;
        switch (g_routes.prequery)
        {
        case 1:
            (void)own.getEnergy();
            break;
        case 2:
            (void)own.getEnergyGrad();
            break;
        case 3:
            (void)own.getEnergyGradBoundary();
            break;
        case 4:
            (void)own.getEnergyGradTimes();
            break;
        case 5:
            (void)own.getEnergyGradInnerPoints();
            break;
        case 6:
            (void)own.getEnergyPartialGradByCoeffs();
            break;
        case 7:
            (void)own.getEnergyPartialGradByTimes();
            break;
        case 8:
        {
            Mat m = Mat::Constant(own.getNumSegments() * S::COEFF_NUM, DIM, 0.5);
            (void)own.propagateGrad(m, VectorXd::Constant(own.getNumSegments(), 0.25));
            break;
        }
        default:
            (void)own.getTrajectory().evaluate(own.getStartTime(), 1);
            break;
        }
    }

    int order() const override { return ORDER; }
    int dim() const override { return DIM; }
    void updateDur(const std::vector<double> &T, const MatrixXd &P, double t0, const BC &bc) override
    {
        if (g_routes.args == 1)
            own.update(std::vector<double>(T), toMat(P), double(t0), toBC(bc));
        else if (g_routes.args == 2)
        {
            std::vector<double> t = T;
            Mat m = toMat(P);
            auto b = toBC(bc);
            double s0 = t0;
            own.update(t, m, s0, b);
        }
        else
            own.update(T, toMat(P), t0, toBC(bc));
        prequery();
    }
    void updatePts(const std::vector<double> &tp, const MatrixXd &P, const BC &bc) override
    {
        if (g_routes.args == 1)
            own.update(std::vector<double>(tp), toMat(P), toBC(bc));
        else if (g_routes.args == 2)
        {
            std::vector<double> t = tp;
            Mat m = toMat(P);
            auto b = toBC(bc);
            own.update(t, m, b);
        }
        else
            own.update(tp, toMat(P), toBC(bc));
        prequery();
    }
    void updateDurDefaultBC(const std::vector<double> &T, const MatrixXd &P, double t0) override
    {
        if (g_routes.args == 1)
            own.update(std::vector<double>(T), toMat(P), double(t0));
        else if (g_routes.args == 2)
        {
            std::vector<double> t = T;
            Mat m = toMat(P);
            double s0 = t0;
            own.update(t, m, s0);
        }
        else
            own.update(T, toMat(P), t0);
        prequery();
    }
    void updatePtsDefaultBC(const std::vector<double> &tp, const MatrixXd &P) override
    {
        if (g_routes.args == 1)
            own.update(std::vector<double>(tp), toMat(P));
        else if (g_routes.args == 2)
        {
            std::vector<double> t = tp;
            Mat m = toMat(P);
            own.update(t, m);
        }
        else
            own.update(tp, toMat(P));
        prequery();
    }
    // the object's own getters passed straight back into update() (warm restart / re-timing idiom): arguments alias members
    void updateFromOwnGetters(int which, double t0) override
    {
        if (which == 0)
            own.update(own.getTimeSegments(), own.getSpacePoints(), t0, own.getBoundaryConditions());
        else
            own.update(own.getCumulativeTimes(), own.getSpacePoints(), own.getBoundaryConditions());
        prequery();
    }
    // a reference bound to the result of a copy getter must be a snapshot: unaffected by a later update of the source
    void copyRefThenUpdate(bool ppolyName, const std::vector<double> &T, const MatrixXd &P, double t0, const BC &bc, MatrixXd &coeffsOut, std::vector<double> &bpOut) override
    {
        if (ppolyName)
        {
            const TT &c = own.getPPolyCopy();
            own.update(T, toMat(P), t0, toBC(bc));
            coeffsOut = fromMat(c.getCoefficients());
            bpOut = c.getBreakpoints();
        }
        else
        {
            auto &&c = own.getTrajectoryCopy();
            own.update(T, toMat(P), t0, toBC(bc));
            coeffsOut = fromMat(c.getCoefficients());
            bpOut = c.getBreakpoints();
        }
    }
    bool isInitialized() const override { return own.isInitialized(); }
    MatrixXd coeffs() const override
    {
        return withTraj([](const TT &t) { return fromMat(t.getCoefficients()); });
    }
    std::vector<double> breakpoints() const override
    {
        return withTraj([](const TT &t) { return t.getBreakpoints(); });
    }
    std::vector<double> cumTimes() const override { return own.getCumulativeTimes(); }
    std::vector<double> timeSegments() const override { return own.getTimeSegments(); }
    double startTime() const override { return own.getStartTime(); }
    double endTime() const override { return own.getEndTime(); }
    double duration() const override { return own.getDuration(); }
    int numSegments() const override { return own.getNumSegments(); }
    size_t numPoints() const override { return own.getNumPoints(); }
    MatrixXd spacePoints() const override { return fromMat(own.getSpacePoints()); }
    BC boundary() const override { return fromBC(own.getBoundaryConditions()); }
    double energy() const override { return own.getEnergy(); }
    Grads energyGrad(bool refOverload) const override
    {
        if (refOverload)
        {
            G g;
            own.getEnergyGrad(g);
            return fromG(g);
        }
        return consume([&]() -> decltype(auto) { return own.getEnergyGrad(); }, [&]() -> decltype(auto) { return own.getEnergyGrad(); }, [](const G &g) { return fromG(g); });
    }
    VectorXd energyGradTimes() const override
    {
        return consume([&]() -> decltype(auto) { return own.getEnergyGradTimes(); }, [&]() -> decltype(auto) { return own.getEnergyPartialGradByTimes(); }, [](const VectorXd &v) { return VectorXd(v); });
    }
    MatrixXd energyGradInner() const override
    {
        return consume([&]() -> decltype(auto) { return own.getEnergyGradInnerPoints(); }, [&]() -> decltype(auto) { return own.getEnergyPartialGradByCoeffs(); }, [](const Mat &m) { return fromMat(m); });
    }
    void energyGradBoundary(MatrixXd &start, MatrixXd &end) const override
    {
        auto b = own.getEnergyGradBoundary();
        start = fromBS(b.start);
        end = fromBS(b.end);
    }
    MatrixXd partialC(bool refOverload) const override
    {
        if (refOverload)
        {
            Mat m;
            own.getEnergyPartialGradByCoeffs(m);
            return fromMat(m);
        }
        return consume([&]() -> decltype(auto) { return own.getEnergyPartialGradByCoeffs(); }, [&]() -> decltype(auto) { return own.getEnergyGradInnerPoints(); }, [](const Mat &m) { return fromMat(m); });
    }
    VectorXd partialT(bool refOverload) const override
    {
        if (refOverload)
        {
            VectorXd v;
            own.getEnergyPartialGradByTimes(v);
            return v;
        }
        return consume([&]() -> decltype(auto) { return own.getEnergyPartialGradByTimes(); }, [&]() -> decltype(auto) { return own.getEnergyGradTimes(); }, [](const VectorXd &v) { return VectorXd(v); });
    }
    Grads propagate(const MatrixXd &gC, const VectorXd &gT, bool refOverload) override
    {
        Mat m = toMat(gC);
        if (refOverload)
        {
            G g;
            own.propagateGrad(m, gT, g);
            return fromG(g);
        }
        Mat m2 = m * 2.0 + Mat::Constant(m.rows(), DIM, 1.0);
        VectorXd gT2 = gT * -0.5 + VectorXd::Constant(gT.size(), 0.75);
        return consume([&]() -> decltype(auto) { return own.propagateGrad(m, gT); }, [&]() -> decltype(auto) { return own.propagateGrad(m2, gT2); }, [](const G &g) { return fromG(g); });
    }
    Grads propagateIntoStale(const MatrixXd &gC, const VectorXd &gT, int staleRows) override
    {
        Mat m = toMat(gC);
        G g;
        if (staleRows < 0)
            staleRows = std::max(0, own.getNumSegments() - 1);
        g.inner_points = Mat::Constant(staleRows, DIM, 7.25);
        g.times = VectorXd::Constant(staleRows + 1, -3.5);
        g.start.p.setConstant(11.0);
        g.start.v.setConstant(12.0);
        g.end.p.setConstant(13.0);
        g.end.v.setConstant(14.0);
        if constexpr (ORDER >= 5)
        {
            g.start.a.setConstant(15.0);
            g.end.a.setConstant(16.0);
        }
        if constexpr (ORDER >= 7)
        {
            g.start.j.setConstant(17.0);
            g.end.j.setConstant(18.0);
        }
        own.propagateGrad(m, gT, g);
        return fromG(g);
    }
    Grads propagateAliasedTimes(const MatrixXd &gC, const VectorXd &gT) override
    {
        Mat m = toMat(gC);
        G g;
        g.times = gT;
        own.propagateGrad(m, g.times, g);
        return fromG(g);
    }
    VectorXd trajEvalHint(double t, int *hint, int k) const override
    {
        return withTraj([&](const TT &tr) { return fromVec(tr.evaluate(t, hint, k)); });
    }
    MatrixXd partialCStale(bool sameShape) const override
    {
        Mat m = Mat::Constant(sameShape ? own.getNumSegments() * S::COEFF_NUM : own.getNumSegments() * S::COEFF_NUM + 3, DIM, -9.75);
        own.getEnergyPartialGradByCoeffs(m);
        return fromMat(m);
    }
    VectorXd partialTStale(bool sameShape) const override
    {
        VectorXd v = VectorXd::Constant(sameShape ? own.getNumSegments() : own.getNumSegments() + 2, 6.5);
        own.getEnergyPartialGradByTimes(v);
        return v;
    }
    Grads energyGradStale(bool sameShape) const override
    {
        G g;
        const int rows = std::max(0, own.getNumSegments() - 1);
        g.inner_points = Mat::Constant(sameShape ? rows : rows + 2, DIM, 3.25);
        g.times = VectorXd::Constant(sameShape ? own.getNumSegments() : own.getNumSegments() + 1, -8.5);
        g.start.p.setConstant(21.0);
        g.start.v.setConstant(22.0);
        g.end.p.setConstant(23.0);
        g.end.v.setConstant(24.0);
        if constexpr (ORDER >= 5)
        {
            g.start.a.setConstant(25.0);
            g.end.a.setConstant(26.0);
        }
        if constexpr (ORDER >= 7)
        {
            g.start.j.setConstant(27.0);
            g.end.j.setConstant(28.0);
        }
        own.getEnergyGrad(g);
        return fromG(g);
    }
    static VectorXd fromVec(const Vec &v)
    {
        VectorXd r(DIM);
        for (int j = 0; j < DIM; ++j)
            r(j) = v(j);
        return r;
    }
    VectorXd trajEval(double t, int k) const override
    {
        return withTraj([&](const TT &tr)
                        { return consume([&]() -> decltype(auto) { return tr.evaluate(t, k); }, [&]() -> decltype(auto) { return tr.evaluate(t + 0.37, k); }, [](const Vec &v) { return fromVec(v); }); });
    }
    VectorXd ppolyEval(double t, int k) const override { return fromVec(own.getPPoly().evaluate(t, k)); }
    VectorXd segEval(int i, double tl, int k) const override
    {
        return withTraj([&](const TT &tr)
                        { return consume([&]() -> decltype(auto) { return tr[i].evaluate(tl, k); }, [&]() -> decltype(auto) { return tr[i].evaluate(tl * 0.5 + 0.01, k); }, [](const Vec &v) { return fromVec(v); }); });
    }
    int trajNumSegments() const override
    {
        return withTraj([](const TT &tr) { return tr.getNumSegments(); });
    }
    int trajNumCoeffs() const override
    {
        return withTraj([](const TT &tr) { return tr.getNumCoeffs(); });
    }
    bool trajInitialized() const override
    {
        return withTraj([](const TT &tr) { return tr.isInitialized(); });
    }
    double trajLengthDefault() const override
    {
        return withTraj([](const TT &tr) { return tr.getTrajectoryLength(); });
    }
    std::unique_ptr<IPPoly> trajectoryCopy(bool ppolyName) const override
    {
        using PP = typename S::TrajectoryType;
        if (ppolyName)
            return std::unique_ptr<IPPoly>(new PPolyAdapter<DIM, S::COEFF_NUM>(own.getPPolyCopy()));
        return std::unique_ptr<IPPoly>(new PPolyAdapter<DIM, S::COEFF_NUM>(own.getTrajectoryCopy()));
        (void)sizeof(PP);
    }
    std::unique_ptr<ISpline> clone() const override { return std::unique_ptr<ISpline>(new SplineAdapter(own)); }
    void assignFrom(const ISpline &o) override { own = static_cast<const SplineAdapter &>(o).own; }
    void selfAssign() override
    {
        S *p = &own;
        own = *p;
    }
    MatrixXd basis(double t) const override
    {
        Eigen::Matrix<double, 1, S::COEFF_NUM> b0, b1, b2, b3, b4, b5;
        S::computeBasisFunctions(t, b0, b1, b2, b3, b4, b5);
        MatrixXd r(6, S::COEFF_NUM);
        r.row(0) = b0;
        r.row(1) = b1;
        r.row(2) = b2;
        r.row(3) = b3;
        r.row(4) = b4;
        r.row(5) = b5;
        return r;
    }
};

// computed while this translation unit's namespace-scope objects are being initialised, i.e. before main()
struct StaticInitProbe
{
    StaticInitRecord rec;
    StaticInitProbe()
    {
        using A = SplineAdapter<VORDER, VDIM>;
        rec.p = staticInitProblem(VORDER, VDIM);
        const Problem &p = rec.p;
        typename A::S s(p.T, A::toMat(p.P), p.t0, A::toBC(p.bc));
        const int nc = A::S::COEFF_NUM;
        rec.gC = MatrixXd(nc * p.N, VDIM);
        for (int i = 0; i < rec.gC.rows(); ++i)
            for (int j = 0; j < VDIM; ++j)
                rec.gC(i, j) = std::cos(0.37 * i + 0.91 * j);
        rec.gT = VectorXd(p.N);
        for (int i = 0; i < p.N; ++i)
            rec.gT(i) = 0.5 - 0.3 * i;
        rec.C = A::fromMat(s.getTrajectory().getCoefficients());
        rec.E = s.getEnergy();
        rec.eg = A::fromG(s.getEnergyGrad());
        rec.pg = A::fromG(s.propagateGrad(A::toMat(rec.gC), rec.gT));
        const double ts[3] = {p.t0, p.t0 + 1.1, p.t0 + 2.9};
        rec.evals.resize(9, VDIM);
        int row = 0;
        for (double t : ts)
            for (int k = 0; k < 3; ++k)
                rec.evals.row(row++) = A::fromVec(s.getTrajectory().evaluate(t, k)).transpose();
    }
};
static const StaticInitProbe static_init_probe;

struct Registrar
{
    Registrar()
    {
        SplineFactory f;
        f.order = VORDER;
        f.dim = VDIM;
        f.staticInit = &static_init_probe.rec;
        f.makeDefault = []() { return std::unique_ptr<ISpline>(new SplineAdapter<VORDER, VDIM>()); };
        f.makeCtor = [](const Problem &p, int mode)
        { return std::unique_ptr<ISpline>(new SplineAdapter<VORDER, VDIM>(p, mode)); };
        registerSpline(f);
#if VORDER == 3
        BcProbe b;
        b.dim = VDIM;
        b.fn = [](int nargs, const MatrixXd &a) -> MatrixXd
        {
            using V = Eigen::Matrix<double, VDIM, 1>;
            auto row = [&](int i)
            {
                V v;
                for (int j = 0; j < VDIM; ++j)
                    v(j) = a(i, j);
                return v;
            };
            ST::BoundaryConditions<VDIM> bc;
            if (nargs == 2)
                bc = ST::BoundaryConditions<VDIM>(row(0), row(1));
            else if (nargs == 4)
                bc = ST::BoundaryConditions<VDIM>(row(0), row(1), row(2), row(3));
            else if (nargs == 6)
                bc = ST::BoundaryConditions<VDIM>(row(0), row(1), row(2), row(3), row(4), row(5));
            MatrixXd r(6, VDIM);
            for (int j = 0; j < VDIM; ++j)
            {
                r(0, j) = bc.start_velocity(j);
                r(1, j) = bc.start_acceleration(j);
                r(2, j) = bc.start_jerk(j);
                r(3, j) = bc.end_velocity(j);
                r(4, j) = bc.end_acceleration(j);
                r(5, j) = bc.end_jerk(j);
            }
            return r;
        };
        registerBcProbe(b);
#endif
    }
} registrar_instance;
} // namespace
