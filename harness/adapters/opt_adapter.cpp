// Compiled once per (VORDER, VDIM): SplineOptimizer<VDIM, Spline, TimeMap, SpatialMap> for the three map combos behind
// vf::IOptimizer / vf::IOptEnv.
#include "../common/eigen_assert_hook.hpp"
#include "SplineOptimizer.hpp"
#include "../common/iface_opt.hpp"
#include "../common/user_maps.hpp"
#include <thread>
#include <atomic>
#include <condition_variable>
#include <functional>
#include <mutex>

#ifndef VORDER
#error "VORDER required"
#endif
#ifndef VDIM
#error "VDIM required"
#endif

namespace
{
using namespace vf;
namespace ST = SplineTrajectory;

template <int ORDER, int DIM>
struct SplineSel;
template <int DIM>
struct SplineSel<3, DIM>
{
    using type = ST::CubicSplineND<DIM>;
};
template <int DIM>
struct SplineSel<5, DIM>
{
    using type = ST::QuinticSplineND<DIM>;
};
template <int DIM>
struct SplineSel<7, DIM>
{
    using type = ST::SepticSplineND<DIM>;
};

template <int DIM>
struct UserSpatialMapD : UserSpatialMap
{
    UserSpatialMapD() { dim = DIM; }
    explicit UserSpatialMapD(const UserSpatialMapCfg &c) : UserSpatialMap(c, DIM) {}
};

// ---- functor wrappers around the runtime cost program
struct TimeCostF
{
    const CostProgram *p;
    double operator()(const std::vector<double> &T, Eigen::VectorXd &g) const { return p->timeCost(T, g); }
};
struct WpCostF
{
    const CostProgram *p;
    template <class Q, class G>
    double operator()(const Q &q, G &g) const
    {
        Eigen::MatrixXd qq = q;
        Eigen::MatrixXd gg;
        double c = p->wpCost(qq, gg);
        g = gg;
        return c;
    }
};
template <int DIM>
struct RunCostF
{
    using Vec = Eigen::Matrix<double, DIM, 1>;
    const CostProgram *p;
    double operator()(double t, double tg, int i, const Vec &P, const Vec &V, const Vec &A, const Vec &J, const Vec &S,
                      Vec &gp, Vec &gv, Vec &ga, Vec &gj, Vec &gs, double &gt) const
    {
        return p->runCost(t, tg, i, P.data(), V.data(), A.data(), J.data(), S.data(), gp.data(), gv.data(), ga.data(), gj.data(), gs.data(), gt);
    }
};

// ---- executors supplied by the harness
struct PermExecutor
{
    const std::vector<int> *perm;
    template <typename Func>
    void operator()(int start, int end, Func &&f) const
    {
        // visits every index in [start,end) exactly once, in the order given by perm (indices outside are appended)
        std::vector<char> seen(end - start, 0);
        for (int v : *perm)
            if (v >= start && v < end && !seen[v - start])
            {
                seen[v - start] = 1;
                f(v);
            }
        for (int i = start; i < end; ++i)
            if (!seen[i - start])
                f(i);
    }
};
struct ThreadedExecutor
{
    int threads;
    uint64_t seed;
    template <typename Func>
    void operator()(int start, int end, Func &&f) const
    {
        // random partition of the indices onto `threads` threads
        std::vector<std::vector<int>> part(threads);
        Rng r(seed);
        for (int i = start; i < end; ++i)
            part[r.range(0, threads - 1)].push_back(i);
        for (auto &v : part)
            r.shuffle(v);
        std::vector<std::thread> th;
        for (int t = 0; t < threads; ++t)
            th.emplace_back([&, t]()
                            {
                                for (int i : part[t])
                                {
                                    f(i);
                                    std::this_thread::yield();
                                } });
        for (auto &t : th)
            t.join();
    }
};

// worker threads that exist BEFORE an evaluation starts and survive it (a thread pool as an application would own it):
// per-thread state set up inside evaluate() on the calling thread is not inherited by them
struct WorkerPool
{
    std::vector<std::thread> th;
    std::mutex mu;
    std::condition_variable cv, doneCv;
    std::vector<std::vector<int>> parts;
    std::function<void(int)> job;
    int generation = 0, pending = 0;
    bool stop = false;
    explicit WorkerPool(int n)
    {
        parts.resize(n);
        for (int i = 0; i < n; ++i)
            th.emplace_back([this, i]()
                            {
                                int seen = 0;
                                for (;;)
                                {
                                    std::unique_lock<std::mutex> lk(mu);
                                    cv.wait(lk, [&]() { return stop || generation != seen; });
                                    if (stop)
                                        return;
                                    seen = generation;
                                    std::vector<int> my = parts[i];
                                    lk.unlock();
                                    for (int v : my)
                                    {
                                        job(v);
                                        std::this_thread::yield();
                                    }
                                    lk.lock();
                                    if (--pending == 0)
                                        doneCv.notify_all();
                                } });
    }
    void run(const std::vector<std::vector<int>> &p, std::function<void(int)> j)
    {
        std::unique_lock<std::mutex> lk(mu);
        parts = p;
        job = std::move(j);
        pending = (int)th.size();
        ++generation;
        cv.notify_all();
        doneCv.wait(lk, [&]() { return pending == 0; });
    }
    ~WorkerPool()
    {
        {
            std::lock_guard<std::mutex> lk(mu);
            stop = true;
        }
        cv.notify_all();
        for (auto &t : th)
            t.join();
    }
};
struct PoolExecutor
{
    WorkerPool *pool;
    uint64_t seed;
    template <typename Func>
    void operator()(int start, int end, Func &&f) const
    {
        // random partition onto the pool's workers; a share of the indices is processed by the calling thread itself
        const int nw = (int)pool->th.size();
        std::vector<std::vector<int>> part(nw);
        std::vector<int> mine;
        Rng r(seed);
        for (int i = start; i < end; ++i)
        {
            int k = r.range(0, nw);
            if (k == nw)
                mine.push_back(i);
            else
                part[k].push_back(i);
        }
        for (auto &v : part)
            r.shuffle(v);
        for (int i : mine)
            f(i);
        pool->run(part, [&](int i) { f(i); });
    }
};

template <int ORDER, int DIM, class TM, class SM>
struct Shared
{
    using Spline = typename SplineSel<ORDER, DIM>::type;
    using Opt = ST::SplineOptimizer<DIM, Spline, TM, SM>;
    using WS = typename Opt::Workspace;
    std::vector<std::unique_ptr<TM>> tms;
    std::vector<std::unique_ptr<SM>> sms;
    std::vector<std::unique_ptr<WS>> wss;
    TM defaultTm;
    SM defaultSm;
    std::unique_ptr<WorkerPool> pool;
    WorkerPool *getPool(int n)
    {
        if (!pool || (int)pool->th.size() != n)
            pool.reset(new WorkerPool(n));
        return pool.get();
    }
};

template <class Spline>
std::unique_ptr<ISpline> wrapSplineCopy(const Spline &s);

template <int ORDER, int DIM, class TM, class SM, int COMBO>
struct OptAdapter final : IOptimizer
{
    using Sh = Shared<ORDER, DIM, TM, SM>;
    using Opt = typename Sh::Opt;
    using Spline = typename Sh::Spline;
    using Mat = typename Spline::MatrixType;
    std::shared_ptr<Sh> sh;
    std::unique_ptr<Opt> opt; // on the heap so that destruction poisons the memory under ASan

    explicit OptAdapter(std::shared_ptr<Sh> s) : sh(s), opt(new Opt()) {}
    OptAdapter(std::shared_ptr<Sh> s, const Opt &o) : sh(s), opt(new Opt(o)) {}
    OptAdapter(std::shared_ptr<Sh> s, Opt &&o, int) : sh(s), opt(new Opt(std::move(o))) {}

    static Mat toMat(const MatrixXd &m)
    {
        Mat r(m.rows(), DIM);
        for (int i = 0; i < m.rows(); ++i)
            for (int j = 0; j < DIM; ++j)
                r(i, j) = (j < m.cols()) ? m(i, j) : 0.0;
        return r;
    }
    static ST::BoundaryConditions<DIM> toBC(const BC &b)
    {
        ST::BoundaryConditions<DIM> r;
        for (int j = 0; j < DIM; ++j)
        {
            r.start_velocity(j) = b.sv(j);
            r.start_acceleration(j) = b.sa(j);
            r.start_jerk(j) = b.sj(j);
            r.end_velocity(j) = b.ev(j);
            r.end_acceleration(j) = b.ea(j);
            r.end_jerk(j) = b.ej(j);
        }
        return r;
    }
    int order() const override { return ORDER; }
    int dim() const override { return DIM; }
    int combo() const override { return COMBO; }
    bool setInitDur(const std::vector<double> &T, const MatrixXd &P, double t0, const BC &bc) override
    {
        return opt->setInitState(T, toMat(P), t0, toBC(bc));
    }
    bool setInitPts(const std::vector<double> &tp, const MatrixXd &P, const BC &bc) override { return opt->setInitState(tp, toMat(P), toBC(bc)); }
    // warm restart: the exposed spline's own getters passed straight back (references into the optimizer's workspace)
    bool reinitFromOwnSpline(int which) override
    {
        const Spline *sp = opt->getOptimalSpline();
        if (!sp)
            return false;
        if (which == 0)
            return opt->setInitState(sp->getTimeSegments(), sp->getSpacePoints(), sp->getStartTime(), sp->getBoundaryConditions());
        return opt->setInitState(sp->getCumulativeTimes(), sp->getSpacePoints(), sp->getBoundaryConditions());
    }
    void setFlags(const OptFlags &f) override
    {
        ST::OptimizationFlags o;
        o.start_p = f.f[0];
        o.start_v = f.f[1];
        o.start_a = f.f[2];
        o.start_j = f.f[3];
        o.end_p = f.f[4];
        o.end_v = f.f[5];
        o.end_a = f.f[6];
        o.end_j = f.f[7];
        opt->setOptimizationFlags(o);
    }
    void setRho(double rho) override { opt->setEnergyWeights(rho); }
    void setSteps(int k) override { opt->setIntegralNumSteps(k); }
    void setTimeMap(int h) override { opt->setTimeMap(h < 0 ? nullptr : sh->tms[h].get()); }
    void setSpatialMap(int h) override { opt->setSpatialMap(h < 0 ? nullptr : sh->sms[h].get()); }
    bool isValid() const override { return opt->isValid(); }
    bool boolConv() const override { return static_cast<bool>(*opt); }
    std::string lastError() const override { return opt->getLastError(); }
    bool checkValidity(std::string *msg) const override { return msg ? opt->checkValidity(msg) : opt->checkValidity(); }
    int getDimension() const override { return opt->getDimension(); }
    VectorXd initialGuess() const override { return opt->generateInitialGuess(); }

    template <class Exec>
    double evalWith(const VectorXd &x, VectorXd &grad, const CostProgram &prog, const EvalOpts &o, const Exec &ex) const
    {
        typename Opt::Workspace *ws = o.ws < 0 ? nullptr : sh->wss[o.ws].get();
        TimeCostF tf{&prog};
        WpCostF wf{&prog};
        RunCostF<DIM> rf{&prog};
        (void)o; // harness executors are exercised through the primary (three-cost) overload; the two-cost overload forwards to it
        return opt->evaluate(x, grad, tf, wf, rf, ws, ex);
    }
    double evaluate(const VectorXd &x, VectorXd &grad, const CostProgram &prog, const EvalOpts &o) const override
    {
        TimeCostF tf{&prog};
        WpCostF wf{&prog};
        RunCostF<DIM> rf{&prog};
        typename Opt::Workspace *ws = o.ws < 0 ? nullptr : sh->wss[o.ws].get();
        switch (o.executor)
        {
        case 0: // all default arguments where possible
            if (o.ws < 0)
                return o.threeCosts ? opt->evaluate(x, grad, tf, wf, rf) : opt->evaluate(x, grad, tf, rf);
            return o.threeCosts ? opt->evaluate(x, grad, tf, wf, rf, ws) : opt->evaluate(x, grad, tf, rf, ws);
        case 1:
            return o.threeCosts ? opt->evaluate(x, grad, tf, wf, rf, ws, ST::SerialExecutor()) : opt->evaluate(x, grad, tf, rf, ws, ST::SerialExecutor());
        case 2:
            return evalWith(x, grad, prog, o, PermExecutor{&o.perm});
        case 3:
            return evalWith(x, grad, prog, o, ThreadedExecutor{o.threads, o.partitionSeed});
        case 5:
            return evalWith(x, grad, prog, o, PoolExecutor{sh->getPool(o.threads), o.partitionSeed});
        default:
            return evalWith(x, grad, prog, o, ST::OpenMPExecutor());
        }
    }
    bool evaluateThrows(const VectorXd &x, const CostProgram &prog, const EvalOpts &o) const override
    {
        VectorXd g;
        try
        {
            (void)evaluate(x, g, prog, o);
        }
        catch (const std::out_of_range &)
        {
            return true;
        }
        return false;
    }
    bool checkGradientsThrows(const VectorXd &x, const CostProgram &prog, bool threeCosts, int wsh) override
    {
        try
        {
            (void)checkGradients(x, prog, threeCosts, wsh, true, 1e-6, 1e-4);
        }
        catch (const std::out_of_range &)
        {
            return true;
        }
        return false;
    }
    CheckResult checkGradients(const VectorXd &x, const CostProgram &prog, bool threeCosts, int wsh, bool defaults, double eps, double tol) override
    {
        TimeCostF tf{&prog};
        WpCostF wf{&prog};
        RunCostF<DIM> rf{&prog};
        typename Opt::Workspace *ws = wsh < 0 ? nullptr : sh->wss[wsh].get();
        typename Opt::GradientCheckResult g;
        if (threeCosts)
        {
            if (defaults)
                g = (wsh < 0) ? opt->checkGradients(x, tf, wf, rf) : opt->checkGradients(x, tf, wf, rf, ws);
            else
                g = opt->checkGradients(x, tf, wf, rf, ws, eps, tol);
        }
        else
        {
            if (defaults)
                g = (wsh < 0) ? opt->checkGradients(x, tf, rf) : opt->checkGradients(x, tf, rf, ws);
            else
                g = opt->checkGradients(x, tf, rf, ws, eps, tol);
        }
        CheckResult r;
        r.valid = g.valid;
        r.error_norm = g.error_norm;
        r.rel_error = g.rel_error;
        r.analytical = g.analytical;
        r.numerical = g.numerical;
        r.report = g.makeReport();
        return r;
    }
    std::unique_ptr<ISpline> optimalSpline() const override
    {
        const Spline *s = opt->getOptimalSpline();
        if (!s)
            return nullptr;
        return wrapSplineCopy<Spline>(*s);
    }
    const void *optimalSplineAddr() const override { return opt->getOptimalSpline(); }
    std::unique_ptr<IOptimizer> clone() const override { return std::unique_ptr<IOptimizer>(new OptAdapter(sh, *opt)); }
    void assignFrom(const IOptimizer &o) override { *opt = *static_cast<const OptAdapter &>(o).opt; }
    // construction / assignment from an rvalue whose storage is released straight afterwards (std::move, container growth)
    std::unique_ptr<IOptimizer> cloneByMove() const override
    {
        std::unique_ptr<Opt> tmp(new Opt(*opt));
        std::unique_ptr<OptAdapter> r(new OptAdapter(sh, std::move(*tmp), 0));
        tmp.reset();
        return r;
    }
    void assignFromMoved(const IOptimizer &o) override
    {
        std::unique_ptr<Opt> tmp(new Opt(*static_cast<const OptAdapter &>(o).opt));
        *opt = std::move(*tmp);
        tmp.reset();
    }
    void selfAssign() override
    {
        Opt *p = opt.get();
        *opt = *p;
    }
    const void *addr() const override { return opt.get(); }
    size_t size() const override { return sizeof(Opt); }
};

// a self-contained ISpline holding a copy of a spline (subset of the interface is enough for the monitors)
template <class Spline>
struct SplineCopyView final : ISpline
{
    using Mat = typename Spline::MatrixType;
    static constexpr int DIM = Spline::VectorType::RowsAtCompileTime;
    Spline s;
    explicit SplineCopyView(const Spline &o) : s(o) {}
    static MatrixXd fromMat(const Mat &m)
    {
        MatrixXd r(m.rows(), DIM);
        for (int i = 0; i < m.rows(); ++i)
            for (int j = 0; j < DIM; ++j)
                r(i, j) = m(i, j);
        return r;
    }
    [[noreturn]] static void no() { throw std::runtime_error("SplineCopyView: operation not available"); }
    int order() const override { return Spline::ORDER; }
    int dim() const override { return DIM; }
    void updateDur(const std::vector<double> &, const MatrixXd &, double, const BC &) override { no(); }
    void updatePts(const std::vector<double> &, const MatrixXd &, const BC &) override { no(); }
    void updateDurDefaultBC(const std::vector<double> &, const MatrixXd &, double) override { no(); }
    void updatePtsDefaultBC(const std::vector<double> &, const MatrixXd &) override { no(); }
    void updateFromOwnGetters(int, double) override { no(); }
    void copyRefThenUpdate(bool, const std::vector<double> &, const MatrixXd &, double, const BC &, MatrixXd &, std::vector<double> &) override { no(); }
    double trajLengthDefault() const override { return s.getTrajectory().getTrajectoryLength(); }
    bool isInitialized() const override { return s.isInitialized(); }
    MatrixXd coeffs() const override { return fromMat(s.getTrajectory().getCoefficients()); }
    std::vector<double> breakpoints() const override { return s.getTrajectory().getBreakpoints(); }
    std::vector<double> cumTimes() const override { return s.getCumulativeTimes(); }
    std::vector<double> timeSegments() const override { return s.getTimeSegments(); }
    double startTime() const override { return s.getStartTime(); }
    double endTime() const override { return s.getEndTime(); }
    double duration() const override { return s.getDuration(); }
    int numSegments() const override { return s.getNumSegments(); }
    size_t numPoints() const override { return s.getNumPoints(); }
    MatrixXd spacePoints() const override { return fromMat(s.getSpacePoints()); }
    BC boundary() const override
    {
        BC r;
        r.setZero(DIM);
        const auto &b = s.getBoundaryConditions();
        for (int j = 0; j < DIM; ++j)
        {
            r.sv(j) = b.start_velocity(j);
            r.sa(j) = b.start_acceleration(j);
            r.sj(j) = b.start_jerk(j);
            r.ev(j) = b.end_velocity(j);
            r.ea(j) = b.end_acceleration(j);
            r.ej(j) = b.end_jerk(j);
        }
        return r;
    }
    double energy() const override { return s.getEnergy(); }
    Grads energyGrad(bool) const override { no(); }
    VectorXd energyGradTimes() const override { return s.getEnergyGradTimes(); }
    MatrixXd energyGradInner() const override { return fromMat(s.getEnergyGradInnerPoints()); }
    void energyGradBoundary(MatrixXd &, MatrixXd &) const override { no(); }
    MatrixXd partialC(bool) const override { return fromMat(s.getEnergyPartialGradByCoeffs()); }
    VectorXd partialT(bool) const override { return s.getEnergyPartialGradByTimes(); }
    Grads propagate(const MatrixXd &, const VectorXd &, bool) override { no(); }
    Grads propagateIntoStale(const MatrixXd &, const VectorXd &, int) override { no(); }
    Grads propagateAliasedTimes(const MatrixXd &, const VectorXd &) override { no(); }
    VectorXd trajEvalHint(double t, int *hint, int k) const override
    {
        auto v = s.getTrajectory().evaluate(t, hint, k);
        VectorXd r(DIM);
        for (int j = 0; j < DIM; ++j)
            r(j) = v(j);
        return r;
    }
    MatrixXd partialCStale(bool) const override { no(); }
    VectorXd partialTStale(bool) const override { no(); }
    Grads energyGradStale(bool) const override { no(); }
    VectorXd trajEval(double t, int k) const override
    {
        auto v = s.getTrajectory().evaluate(t, k);
        VectorXd r(DIM);
        for (int j = 0; j < DIM; ++j)
            r(j) = v(j);
        return r;
    }
    VectorXd ppolyEval(double t, int k) const override { return trajEval(t, k); }
    VectorXd segEval(int i, double tl, int k) const override
    {
        auto v = s.getTrajectory()[i].evaluate(tl, k);
        VectorXd r(DIM);
        for (int j = 0; j < DIM; ++j)
            r(j) = v(j);
        return r;
    }
    int trajNumSegments() const override { return s.getTrajectory().getNumSegments(); }
    int trajNumCoeffs() const override { return s.getTrajectory().getNumCoeffs(); }
    bool trajInitialized() const override { return s.getTrajectory().isInitialized(); }
    std::unique_ptr<IPPoly> trajectoryCopy(bool) const override { no(); }
    std::unique_ptr<ISpline> clone() const override { return std::unique_ptr<ISpline>(new SplineCopyView(s)); }
    void assignFrom(const ISpline &) override { no(); }
    void selfAssign() override { no(); }
    MatrixXd basis(double) const override { no(); }
};
template <class Spline>
std::unique_ptr<ISpline> wrapSplineCopy(const Spline &s)
{
    return std::unique_ptr<ISpline>(new SplineCopyView<Spline>(s));
}

template <class TM>
TM makeTm(const UserTimeMapCfg &)
{
    return TM();
}
template <>
UserTimeMap makeTm<UserTimeMap>(const UserTimeMapCfg &c)
{
    return UserTimeMap(c);
}
template <class SM>
SM makeSm(const UserSpatialMapCfg &)
{
    return SM();
}
template <>
UserSpatialMapD<VDIM> makeSm<UserSpatialMapD<VDIM>>(const UserSpatialMapCfg &c)
{
    return UserSpatialMapD<VDIM>(c);
}

template <int ORDER, int DIM, class TM, class SM, int COMBO>
struct OptEnv final : IOptEnv
{
    using Sh = Shared<ORDER, DIM, TM, SM>;
    using Vec = Eigen::Matrix<double, DIM, 1>;
    std::shared_ptr<Sh> sh{new Sh()};
    int order() const override { return ORDER; }
    int dim() const override { return DIM; }
    int combo() const override { return COMBO; }
    std::unique_ptr<IOptimizer> makeOptimizer() override { return std::unique_ptr<IOptimizer>(new OptAdapter<ORDER, DIM, TM, SM, COMBO>(sh)); }
    int newWorkspace() override
    {
        sh->wss.emplace_back(new typename Sh::WS());
        return (int)sh->wss.size() - 1;
    }
    void freeWorkspace(int h) override { sh->wss[h].reset(); }
    std::unique_ptr<ISpline> wsSpline(int h) const override { return wrapSplineCopy<typename Sh::Spline>(sh->wss[h]->spline); }
    int newTimeMap(const UserTimeMapCfg &cfg) override
    {
        sh->tms.emplace_back(new TM(makeTm<TM>(cfg)));
        return (int)sh->tms.size() - 1;
    }
    int newSpatialMap(const UserSpatialMapCfg &cfg) override
    {
        sh->sms.emplace_back(new SM(makeSm<SM>(cfg)));
        return (int)sh->sms.size() - 1;
    }
    const void *timeMapAddr(int h) const override { return sh->tms[h].get(); }
    const void *spatialMapAddr(int h) const override { return sh->sms[h].get(); }
    const TM &tm(int h) const { return h < 0 ? sh->defaultTm : *sh->tms[h]; }
    const SM &sm(int h) const { return h < 0 ? sh->defaultSm : *sh->sms[h]; }
    double tmToTime(int h, double tau) const override { return tm(h).toTime(tau); }
    double tmToTau(int h, double T) const override { return tm(h).toTau(T); }
    double tmBackward(int h, double tau, double T, double g) const override { return tm(h).backward(tau, T, g); }
    int smDof(int h, int index) const override { return sm(h).getUnconstrainedDim(index); }
    template <class V>
    static VectorXd dyn(const V &v)
    {
        VectorXd r(v.size());
        for (int i = 0; i < v.size(); ++i)
            r(i) = v(i);
        return r;
    }
    VectorXd smToPhysical(int h, const VectorXd &xi, int index) const override
    {
        if constexpr (COMBO == 2)
            return dyn(sm(h).toPhysical(xi, index));
        else
        {
            Vec v = xi;
            return dyn(sm(h).toPhysical(v, index));
        }
    }
    VectorXd smToUnconstrained(int h, const VectorXd &p, int index) const override
    {
        if constexpr (COMBO == 2)
            return dyn(sm(h).toUnconstrained(p, index));
        else
        {
            Vec v = p;
            return dyn(sm(h).toUnconstrained(v, index));
        }
    }
    VectorXd smBackward(int h, const VectorXd &xi, const VectorXd &g, int index) const override
    {
        if constexpr (COMBO == 2)
            return dyn(sm(h).backwardGrad(xi, g, index));
        else
        {
            Vec a = xi, b = g;
            return dyn(sm(h).backwardGrad(a, b, index));
        }
    }
};

struct Registrar
{
    Registrar()
    {
        OptFactory f;
        f.order = VORDER;
        f.dim = VDIM;
        f.make = [](int combo) -> std::unique_ptr<IOptEnv>
        {
            if (combo == 0)
                return std::unique_ptr<IOptEnv>(new OptEnv<VORDER, VDIM, ST::QuadInvTimeMap, ST::IdentitySpatialMap<VDIM>, 0>());
            if (combo == 1)
                return std::unique_ptr<IOptEnv>(new OptEnv<VORDER, VDIM, ST::IdentityTimeMap, ST::IdentitySpatialMap<VDIM>, 1>());
            return std::unique_ptr<IOptEnv>(new OptEnv<VORDER, VDIM, UserTimeMap, UserSpatialMapD<VDIM>, 2>());
        };
        registerOpt(f);
    }
} registrar_instance;
} // namespace
