// Compiled once per (VDIM, VPORD): registers PPolyND<VDIM, VPORD> (VPORD = -1 -> Eigen::Dynamic).
#include "ppoly_adapter_impl.hpp"
#ifndef VDIM
#error "VDIM required"
#endif
#ifndef VPORD
#error "VPORD required"
#endif
namespace
{
struct Registrar
{
    Registrar()
    {
        vf::PPolyFactory f;
        f.dim = VDIM;
        f.fixedOrder = VPORD;
        f.make = []() { return std::unique_ptr<vf::IPPoly>(new PPolyAdapter<VDIM, (VPORD < 0 ? Eigen::Dynamic : VPORD)>()); };
        vf::registerPPoly(f);
    }
} registrar_instance;
} // namespace
