// PPolyND<DIM,ORDER> behind vf::IPPoly.  Header so that the spline adapter can wrap trajectory copies as well.
#pragma once
#include <cstdlib>
#include "../common/eigen_assert_hook.hpp"
#include "SplineTrajectory.hpp"
#include "../common/iface.hpp"
#include <stdexcept>

namespace
{
template <int DIM, int ORD>
struct PPolyAdapter final : vf::IPPoly
{
    using PP = SplineTrajectory::PPolyND<DIM, ORD>;
    using Mat = typename PP::MatrixType;
    using Vec = typename PP::VectorType;
    using Deriv = SplineTrajectory::Deriv;
    using MatrixXd = Eigen::MatrixXd;
    using VectorXd = Eigen::VectorXd;
    PP pp;
    PPolyAdapter() {}
    explicit PPolyAdapter(const PP &p) : pp(p) {}
    explicit PPolyAdapter(PP &&p) : pp(std::move(p)) {}
    PPolyAdapter(const std::vector<double> &bp, const MatrixXd &c, int nc) : pp(bp, toMat(c), nc) {}

    static Mat toMat(const MatrixXd &m)
    {
        Mat r(m.rows(), DIM);
        for (int i = 0; i < m.rows(); ++i)
            for (int j = 0; j < DIM; ++j)
                r(i, j) = m(i, j);
        return r;
    }
    template <class M>
    static MatrixXd fromMat(const M &m)
    {
        MatrixXd r(m.rows(), m.cols());
        for (int i = 0; i < m.rows(); ++i)
            for (int j = 0; j < m.cols(); ++j)
                r(i, j) = m(i, j);
        return r;
    }
    static VectorXd fromVec(const Vec &v)
    {
        VectorXd r(DIM);
        for (int j = 0; j < DIM; ++j)
            r(j) = v(j);
        return r;
    }
    static MatrixXd fromVecs(const SplineTrajectory::SplineVector<Vec> &vs)
    {
        MatrixXd r(vs.size(), DIM);
        for (size_t i = 0; i < vs.size(); ++i)
            for (int j = 0; j < DIM; ++j)
                r(i, j) = vs[i](j);
        return r;
    }
    static vf::SegView view(const typename PP::Segment &s)
    {
        vf::SegView v;
        v.start = s.startTime();
        v.end = s.endTime();
        v.duration = s.duration();
        v.index = s.index();
        v.coeffs = fromMat(s.getCoeffs());
        return v;
    }

    int dim() const override { return DIM; }
    int fixedOrder() const override { return ORD == Eigen::Dynamic ? -1 : ORD; }
    void update(const std::vector<double> &bp, const MatrixXd &c, int nc) override { pp.update(bp, toMat(c), nc); }
    void updateAliased(int which, const std::vector<double> &bp, const MatrixXd &c, int nc) override
    {
        if (which == 0) // keep the knots, new coefficients
            pp.update(pp.getBreakpoints(), toMat(c), nc);
        else if (which == 1) // re-time, keep the coefficients
            pp.update(bp, pp.getCoefficients(), nc);
        else
            pp.update(pp.getBreakpoints(), pp.getCoefficients(), nc);
    }
    bool isInitialized() const override { return pp.isInitialized(); }
    int numSegments() const override { return pp.getNumSegments(); }
    int numCoeffs() const override { return pp.getNumCoeffs(); }
    int degree() const override { return pp.getDegree(); }
    double startTime() const override { return pp.getStartTime(); }
    double endTime() const override { return pp.getEndTime(); }
    double duration() const override { return pp.getDuration(); }
    std::vector<double> breakpoints() const override { return pp.getBreakpoints(); }
    MatrixXd coefficients() const override { return fromMat(pp.getCoefficients()); }
    VectorXd eval(double t, int k) const override
    {
        return vf::consumeHeld([&]() -> decltype(auto) { return pp.evaluate(t, k); }, [&]() -> decltype(auto) { return pp.evaluate(t + 0.37, k); }, [](const Vec &v) { return fromVec(v); });
    }
    VectorXd evalEnum(double t, int k) const override
    {
        if (k < 0)
            return fromVec(pp.evaluate(t));
        return fromVec(pp.evaluate(t, static_cast<Deriv>(k)));
    }
    VectorXd evalHint(double t, int *hint, int k) const override
    {
        int h2 = hint ? *hint : 0;
        return vf::consumeHeld([&]() -> decltype(auto) { return pp.evaluate(t, hint, k); }, [&]() -> decltype(auto) { return pp.evaluate(t - 0.21, &h2, k); }, [](const Vec &v) { return fromVec(v); });
    }
    VectorXd evalHintEnum(double t, int *hint, int k) const override
    {
        if (k < 0)
            return fromVec(pp.evaluate(t, hint));
        return fromVec(pp.evaluate(t, hint, static_cast<Deriv>(k)));
    }
    // A long-running program's heap is not made of fresh zero pages: blocks of the size the result will need are filled with
    // a recognisable non-zero pattern and released just before the call, so that a result element the library allocates
    // but never writes shows up as that pattern instead of an accidental zero.
    static void dirtyHeap(size_t n)
    {
        for (size_t extra : {size_t(0), size_t(2), size_t(4)})
        {
            double *junk = static_cast<double *>(std::malloc((n * DIM + extra) * sizeof(double)));
            if (!junk)
                continue;
            for (size_t i = 0; i < n * DIM + extra; ++i)
                junk[i] = -7.771e300;
            asm volatile("" : : "r"(junk) : "memory");
            std::free(junk);
        }
    }
    MatrixXd evalBatch(const std::vector<double> &t, int k) const override
    {
        dirtyHeap(t.size());
        return fromVecs(pp.evaluate(t, k));
    }
    MatrixXd evalBatchEnum(const std::vector<double> &t, int k) const override
    {
        dirtyHeap(t.size());
        if (k < 0)
            return fromVecs(pp.evaluate(t));
        return fromVecs(pp.evaluate(t, static_cast<Deriv>(k)));
    }
    vf::SegView segIndex(int i) const override { return view(pp[i]); }
    bool segAt(int i, vf::SegView *out) const override
    {
        try
        {
            auto s = pp.at(i);
            if (out)
                *out = view(s);
            return true;
        }
        catch (const std::out_of_range &)
        {
            return false;
        }
    }
    VectorXd segEval(int i, double tl, int k) const override
    {
        return vf::consumeHeld([&]() -> decltype(auto) { return pp[i].evaluate(tl, k); }, [&]() -> decltype(auto) { return pp[i].evaluate(tl * 0.5 + 0.01, k); }, [](const Vec &v) { return fromVec(v); });
    }
    VectorXd segEvalEnum(int i, double tl, int k) const override
    {
        if (k < 0)
            return fromVec(pp[i].evaluate(tl));
        return fromVec(pp[i].evaluate(tl, static_cast<Deriv>(k)));
    }
    VectorXd segAtEval(int i, double tl, int k) const override { return fromVec(pp.at(i).evaluate(tl, k)); }
    std::vector<vf::SegView> iterate(bool reverse) const override
    {
        std::vector<vf::SegView> r;
        if (!reverse && vf::g_routes.hold)
        {
            // a Segment reached by dereferencing is a handle of ITS piece: still so after the iterator has moved on and has
            // been dereferenced again
            for (auto it = pp.begin(); it != pp.end();)
            {
                const auto &cur = *it;
                ++it;
                if (it != pp.end())
                {
                    const auto &nxt = *it;
                    (void)nxt.index();
                }
                r.push_back(view(cur));
            }
        }
        else if (!reverse)
        {
            for (auto it = pp.begin(); it != pp.end(); ++it)
                r.push_back(view(*it));
        }
        else
        {
            auto it = pp.end();
            while (it != pp.begin())
            {
                --it;
                r.push_back(view(*it));
            }
        }
        return r;
    }
    VectorXd iterEval(int i, double tl, int k, int mode) const override
    {
        switch (mode)
        {
        case 0:
            return fromVec((*(pp.begin() + i)).evaluate(tl, k));
        case 1:
            return fromVec((pp.begin() + i)->evaluate(tl, k));
        case 2:
        {
            auto it = pp.begin();
            for (int j = 0; j < i; ++j)
                it++;
            if (vf::g_routes.hold && i + 1 < pp.getNumSegments())
            {
                const auto &cur = *it;
                ++it;
                const auto &nxt = *it;
                (void)nxt.duration();
                return fromVec(cur.evaluate(tl, k));
            }
            return fromVec((*it).evaluate(tl, k));
        }
        default:
        {
            auto it = pp.end();
            const int n = pp.getNumSegments();
            for (int j = n; j > i; --j)
                it--;
            return fromVec(it->evaluate(tl, k));
        }
        }
    }
    std::unique_ptr<vf::IPPoly> derivative(int k) const override
    {
        if (k < 0)
            return std::unique_ptr<vf::IPPoly>(new PPolyAdapter(pp.derivative()));
        return std::unique_ptr<vf::IPPoly>(new PPolyAdapter(pp.derivative(k)));
    }
    std::unique_ptr<vf::IPPoly> clone() const override { return std::unique_ptr<vf::IPPoly>(new PPolyAdapter(pp)); }
    void assignFrom(const vf::IPPoly &o) override { pp = static_cast<const PPolyAdapter &>(o).pp; }
    void selfAssign() override
    {
        PP *p = &pp;
        pp = *p;
    }
    std::vector<double> genTimeSeq(double a, double b, double dt) const override { return pp.generateTimeSequence(a, b, dt); }
    std::vector<double> genTimeSeqAll(double dt) const override { return pp.generateTimeSequence(dt); }
    double length(double a, double b, double dt) const override { return pp.getTrajectoryLength(a, b, dt); }
    double lengthAll(double dt) const override { return pp.getTrajectoryLength(dt); }
    double lengthDefault() const override { return pp.getTrajectoryLength(); }
    std::unique_ptr<vf::IPPoly> makeEmpty() const override { return std::unique_ptr<vf::IPPoly>(new PPolyAdapter()); }
    std::unique_ptr<vf::IPPoly> makeCtor(const std::vector<double> &bp, const MatrixXd &c, int nc) const override
    {
        return std::unique_ptr<vf::IPPoly>(new PPolyAdapter(bp, c, nc));
    }
    std::unique_ptr<vf::IPPoly> makeZero(const std::vector<double> &bp, int nc) const override
    {
        if (nc < 0)
            return std::unique_ptr<vf::IPPoly>(new PPolyAdapter(PP::zero(bp)));
        return std::unique_ptr<vf::IPPoly>(new PPolyAdapter(PP::zero(bp, nc)));
    }
    std::unique_ptr<vf::IPPoly> makeConstant(const std::vector<double> &bp, const VectorXd &v) const override
    {
        Vec c;
        for (int j = 0; j < DIM; ++j)
            c(j) = v(j);
        return std::unique_ptr<vf::IPPoly>(new PPolyAdapter(PP::constant(bp, c)));
    }
};
} // namespace
