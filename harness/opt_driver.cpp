// Monitors over SplineOptimizer (through vf::IOptimizer): C07 C08 C09 C10 (workspace part) C12 (schedule part) C15 C16 C19.
#define VF_MAIN_TU 1
#include "opt_common.hpp"
#include "opt_monitors.hpp"

using namespace vf;

int main(int argc, char **argv)
{
    Args a;
    if (!parseArgs(argc, argv, a))
    {
        fprintf(stderr, "usage: opt_driver --prop Cnn ...\n");
        return 2;
    }
    installCrashHandlers();
    installRoutesHook();
    Ctx c;
    c.a = a;
    c.prop_hash = hashStr(a.prop.c_str());
    if (!a.out.empty())
    {
        c.out = fopen(a.out.c_str(), "w");
        if (!c.out)
            return 2;
    }
    try
    {
        if (a.mode == "threads")
            runThreadsOpt(c);
        else if (a.prop == "C07")
            runC07(c);
        else if (a.prop == "C08")
            runC08(c);
        else if (a.prop == "C09")
            runC09(c);
        else if (a.prop == "C10")
            runC10ws(c);
        else if (a.prop == "C12")
            runC12sched(c);
        else if (a.prop == "C15")
            runC15(c);
        else if (a.prop == "C16")
            runC16opt(c);
        else if (a.prop == "C19")
            runC19(c);
        else
        {
            fprintf(stderr, "opt_driver: unknown property %s\n", a.prop.c_str());
            return 2;
        }
    }
    catch (const std::exception &e)
    {
        fprintf(stderr, "VF_HARNESS_ERROR %s (%s)\n", e.what(), g_case_desc);
        return 3;
    }
    c.finish();
    if (c.out != stdout)
        fclose(c.out);
    return 0;
}
