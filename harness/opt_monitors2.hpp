// Optimizer monitors, part 2: C10 (workspace part) C12 (schedule part) C15 C16 (optimizer part) C19.
#pragma once
#include <thread>
#include <atomic>
#include "opt_monitors.hpp"
#include <climits>

namespace vf
{
struct EvalResult
{
    double cost = 0;
    VectorXd grad;
    MatrixXd coeffs;
    std::vector<double> T;
};
inline bool sameResult(const EvalResult &a, const EvalResult &b, bool withSpline = true)
{
    if (!bitEqualOrBothNaN(a.cost, b.cost) || a.grad.size() != b.grad.size())
        return false;
    for (int i = 0; i < a.grad.size(); ++i)
        if (!bitEqualOrBothNaN(a.grad(i), b.grad(i)))
            return false;
    if (withSpline && (!bitEqualMat(a.coeffs, b.coeffs) || !bitEqualVec(a.T, b.T)))
        return false;
    return true;
}
inline EvalResult evalFreshFull(const OptCase &oc, const VectorXd &x, bool three)
{
    OptRig rig = buildRig(oc);
    if (!initRig(rig, oc))
        throw std::runtime_error("evalFreshFull: reference rejected");
    EvalResult r;
    EvalOpts eo;
    eo.threeCosts = three;
    eo.ws = rig.env->newWorkspace();
    r.cost = rig.opt->evaluate(x, r.grad, oc.prog, eo);
    auto s = rig.env->wsSpline(eo.ws);
    r.coeffs = s->coeffs();
    r.T = s->timeSegments();
    return r;
}

// ------------------------------------------------------------------ C10 (optimizer workspaces)
inline void runC10ws(Ctx &c)
{
    const bool thorough = c.a.tier == "thorough";
    const uint64_t per = c.count(thorough ? 150 : 12);
    for (auto od : optCells())
    {
        const int order = od.first, dim = od.second;
        if (!selected(c.a.orders, order) || !selected(c.a.dims, dim))
            continue;
        for (int combo : {0, 2})
        {
            std::string cell = "ws_o" + std::to_string(order) + "d" + std::to_string(dim) + "m" + std::to_string(combo);
            if (!c.cellSelected(cell))
                continue;
            for (uint64_t idx = 0; idx < per; ++idx)
            {
                if (!c.mine(idx))
                    continue;
                Rng r = c.beginCase(cell, idx);
                std::vector<std::string> trace;
                c.dump = [&]()
                {
                    std::string s = "[";
                    for (size_t i = 0; i < trace.size(); ++i)
                        s += (i ? "," : "") + jstr(trace[i]);
                    return JObj().raw("history", s + "]").done();
                };
                // two optimizers of the same type sharing one environment (maps, external workspaces)
                OptCase cfg[2];
                OptRig rig;
                std::unique_ptr<IOptimizer> opts[2];
                static const int walk[] = {6, 1, 2, 9, 2, 1, 12, 3, 1, 5};
                int wpos = r.range(0, 9);
                cfg[0] = genOptCase(r, order, dim, walk[(wpos++) % 10], combo);
                cfg[0].userTm = cfg[0].userSm = false;
                rig = buildRig(cfg[0]);
                opts[0] = std::move(rig.opt);
                opts[1] = rig.env->makeOptimizer();
                auto initOne = [&](int k) -> bool
                {
                    bool ok = cfg[k].initByPoints ? opts[k]->setInitPts(cfg[k].ref.timePoints(), cfg[k].ref.P, cfg[k].ref.bc)
                                                  : opts[k]->setInitDur(cfg[k].ref.T, cfg[k].ref.P, cfg[k].ref.t0, cfg[k].ref.bc);
                    opts[k]->setFlags(cfg[k].flags);
                    opts[k]->setRho(cfg[k].rho);
                    opts[k]->setSteps(cfg[k].K);
                    return ok;
                };
                cfg[1] = genOptCase(r, order, dim, walk[(wpos++) % 10], combo);
                cfg[1].userTm = cfg[1].userSm = false;
                if (!initOne(0) || !initOne(1))
                {
                    c.require("C10.reference_state_accepted", false, okey(cfg[0], "setup"));
                    continue;
                }
                std::vector<int> wsh{rig.env->newWorkspace(), rig.env->newWorkspace()};
                VectorXd lastX[2];
                bool lastThree[2] = {true, true};
                int lastWs[2] = {-1, -1};
                uint64_t hh = 0;
                const int len = r.range(5, thorough ? 40 : 20);
                for (int step = 0; step < len && !c.case_failed; ++step)
                {
                    int k = r.range(0, 1);
                    int op = r.range(0, 6);
                    if (op == 6 && lastX[k].size() > 0)
                    {
                        // the same decision vector again after the data that are NOT part of it changed (pinned boundary
                        // states / end points, start time), same segment count, same workspace
                        OptCase n2 = genOptCase(r, order, dim, cfg[k].ref.N, combo);
                        cfg[k].ref.bc = n2.ref.bc;
                        cfg[k].ref.t0 = n2.ref.t0;
                        cfg[k].ref.P.row(0) = n2.ref.P.row(0);
                        cfg[k].ref.P.row(cfg[k].ref.N) = n2.ref.P.row(cfg[k].ref.N);
                        if (r.coin())
                            cfg[k].rho = r.coin() ? 0.0 : r.uni(0.05, 1.0);
                        if (!initOne(k))
                        {
                            c.require("C10.reference_state_accepted", false, okey(cfg[k], "setup"));
                            break;
                        }
                        EvalOpts eo;
                        eo.threeCosts = lastThree[k];
                        eo.ws = lastWs[k];
                        EvalResult got;
                        got.cost = opts[k]->evaluate(lastX[k], got.grad, cfg[k].prog, eo);
                        auto s2 = eo.ws < 0 ? opts[k]->optimalSpline() : rig.env->wsSpline(eo.ws);
                        got.coeffs = s2->coeffs();
                        got.T = s2->timeSegments();
                        trace.push_back("opt" + std::to_string(k) + ".reinit_non_x_data + evaluate(same x)");
                        EvalResult fresh = evalFreshFull(cfg[k], lastX[k], eo.threeCosts);
                        c.require("C10.reused_workspace_equals_fresh_bitwise", sameResult(got, fresh), okey(cfg[k], "workspace_history"), "after step " + std::to_string(step) + ": " + trace.back());
                        c.event("op.same_x_new_fixed_data");
                        c.event("shadow_comparisons");
                        continue;
                    }
                    if (op == 6)
                        op = 2;
                    if (op == 0)
                    {
                        OptCase n2 = genOptCase(r, order, dim, r.coin(0.35) ? cfg[k].ref.N : (r.coin(0.7) ? walk[(wpos++) % 10] : r.range(1, 10)), combo);
                        n2.userTm = n2.userSm = false;
                        cfg[k] = n2;
                        if (!initOne(k))
                        {
                            c.require("C10.reference_state_accepted", false, okey(cfg[k], "setup"));
                            break;
                        }
                        trace.push_back("opt" + std::to_string(k) + ".setInitState N=" + std::to_string(n2.ref.N));
                        hh = mix64(hh, hashOptCase(n2));
                        lastX[k].resize(0);
                        continue;
                    }
                    OptRig view;
                    view.env = nullptr;
                    // decision vector for optimizer k
                    OptRig tmp = buildRig(cfg[k]); // only for the map handles (defaults)
                    VectorXd x = genDecisionVector(r, cfg[k], tmp);
                    const bool three = r.coin(0.7);
                    int w = r.range(-1, 1);
                    EvalOpts eo;
                    eo.threeCosts = three;
                    eo.ws = w < 0 ? -1 : wsh[w];
                    if (op == 1 && r.coin())
                    {
                        // interleaved gradient self-check on the same workspace (result unused)
                        (void)opts[k]->checkGradients(x, cfg[k].prog, three, eo.ws, true, 1e-6, 1e-4);
                        trace.push_back("opt" + std::to_string(k) + ".checkGradients ws=" + std::to_string(w));
                        c.event("op.checkGradients");
                    }
                    else if (op == 1)
                    {
                        // an evaluation on the same workspace that a throwing user callback aborted part-way
                        OptRig tmp2 = buildRig(cfg[k]);
                        VectorXd xa = genDecisionVector(r, cfg[k], tmp2);
                        if (abortedEvaluation(c, r, *opts[k], cfg[k], eo, xa))
                            trace.push_back("opt" + std::to_string(k) + ".evaluate ABORTED by callback exception ws=" + std::to_string(w));
                    }
                    EvalResult got;
                    got.cost = opts[k]->evaluate(x, got.grad, cfg[k].prog, eo);
                    lastX[k] = x;
                    lastThree[k] = three;
                    lastWs[k] = eo.ws;
                    auto s = w < 0 ? opts[k]->optimalSpline() : rig.env->wsSpline(eo.ws);
                    got.coeffs = s->coeffs();
                    got.T = s->timeSegments();
                    trace.push_back("opt" + std::to_string(k) + ".evaluate N=" + std::to_string(cfg[k].ref.N) + " ws=" + std::to_string(w));
                    hh = mix64(hh, hashDoubles(x.data(), x.size(), k * 3 + w));
                    EvalResult fresh = evalFreshFull(cfg[k], x, three);
                    c.require("C10.reused_workspace_equals_fresh_bitwise", sameResult(got, fresh), okey(cfg[k], "workspace_history"), "after step " + std::to_string(step) + ": " + trace.back());
                    c.require("C10.outputs_finite", std::isfinite(got.cost) && allFinite(got.grad) && allFinite(got.coeffs), okey(cfg[k], "finite"));
                    c.event("op.evaluate");
                    c.event("shadow_comparisons");
                }
                c.nontrivial(hh);
                if (idx < 1)
                    c.wantSample();
            }
        }
    }
}

// ------------------------------------------------------------------ C12 (executor schedules; value identity)
inline void runC12sched(Ctx &c)
{
    const bool thorough = c.a.tier == "thorough";
    const bool omp = c.a.variant == "omp";
    static const std::vector<int> nq{1, 2, 3, 4, 5, 8}, nt{1, 2, 3, 4, 5, 6, 9, 16};
    auto cells = optCellList(c, thorough ? nt : nq, {0, 2});
    for (auto &cl : cells)
    {
        if (cl.dim > 3 && !thorough)
            continue;
        const uint64_t per = c.count(thorough ? 6 : 1);
        for (uint64_t idx = 0; idx < per; ++idx)
        {
            if (!c.mine(idx))
                continue;
            Rng r = c.beginCase(cl.name, idx);
            OptCase oc = genOptCase(r, cl.order, cl.dim, cl.N, cl.combo);
            oc.K = r.pick(std::vector<int>{1, 3, 8});
            OptRig rig = buildRig(oc);
            VectorXd x;
            c.dump = [&]() { return dumpOptCase(oc, &x); };
            if (!c.require("C12.reference_state_accepted", initRig(rig, oc), okey(oc, "setup")))
                continue;
            x = genDecisionVector(r, oc, rig);
            if (cl.N >= 2 && r.coin(0.25))
            {
                // a hard keep-out barrier (+inf) that is hit in some, not all, segments: whatever the result is under serial
                // execution, it must be the same under every schedule
                int wi = r.range(1, cl.N - 1);
                oc.prog.bar_r2 = 2.25;
                for (int j = 0; j < cl.dim; ++j)
                    oc.prog.bar_c[j] = oc.ref.P(wi, j);
                c.event("program.hard_barrier");
            }
            else if (r.coin(0.25))
            {
                // every term the integrator sees is subnormal (a cost expressed in tiny units): still plain IEEE arithmetic, so
                // still the same bits on whichever thread a segment is processed
                oc.prog.has_time = false;
                oc.prog.has_wp = false;
                oc.prog.out_scale = r.pick(std::vector<double>{1e-307, 1e-309, 1e-312, 1e-316});
                oc.rho = 0;
                rig.opt->setRho(0);
                c.event("program.subnormal_magnitudes");
            }
            c.nontrivial(hashOptCase(oc, &x));
            if (idx < 1)
                c.wantSample();
            EvalOpts eo;
            eo.threeCosts = true;
            eo.ws = rig.env->newWorkspace();
            eo.executor = 1;
            EvalResult serial;
            serial.cost = rig.opt->evaluate(x, serial.grad, oc.prog, eo);
            serial.coeffs = rig.env->wsSpline(eo.ws)->coeffs();
            serial.T = rig.env->wsSpline(eo.ws)->timeSegments();
            auto runWith = [&](EvalOpts o, const std::string &what)
            {
                Recorder rec;
                CostProgram prog = oc.prog;
                prog.rec = &rec;
                o.threeCosts = true;
                o.ws = rig.env->newWorkspace();
                EvalResult got;
                got.cost = rig.opt->evaluate(x, got.grad, prog, o);
                got.coeffs = rig.env->wsSpline(o.ws)->coeffs();
                got.T = rig.env->wsSpline(o.ws)->timeSegments();
                rig.env->freeWorkspace(o.ws);
                c.require("C12.schedule_independent_bitwise", sameResult(got, serial), okey(oc, "schedule"), what);
                // what was actually explored: order in which segments were processed, interleaving of threads
                std::vector<RunSample> sm = rec.merged();
                std::string segOrder, inter;
                int lastSeg = -1;
                std::set<int> threads;
                for (auto &s2 : sm)
                {
                    threads.insert(s2.thread);
                    if (s2.seg != lastSeg)
                    {
                        segOrder += std::to_string(s2.seg) + ",";
                        inter += std::to_string(s2.thread) + ":" + std::to_string(s2.seg) + ",";
                        lastSeg = s2.seg;
                    }
                }
                c.distinct_sets[0].insert(std::to_string(cl.N) + "|" + segOrder);
                if (threads.size() > 1)
                    c.distinct_sets[1].insert(std::to_string(cl.N) + "|" + inter);
                c.event("schedules_run");
                c.counters["max_threads_in_one_evaluation"] = std::max<uint64_t>(c.counters["max_threads_in_one_evaluation"], threads.size());
                // exactly-once still holds under the schedule
                c.require("C12.every_sample_once_under_schedule", (int)sm.size() == cl.N * (oc.K + 1), okey(oc, "schedule"), what);
            };
            if (omp)
            {
                EvalOpts o;
                o.executor = 4;
                for (int rep = 0; rep < 4; ++rep)
                    runWith(o, "OpenMPExecutor");
                continue;
            }
            // permutations of the segment order
            std::vector<int> perm(cl.N);
            for (int i = 0; i < cl.N; ++i)
                perm[i] = i;
            if (cl.N <= 5 && (thorough || cl.N <= 4))
            {
                std::sort(perm.begin(), perm.end());
                do
                {
                    EvalOpts o;
                    o.executor = 2;
                    o.perm = perm;
                    runWith(o, "permutation " + jveci(perm));
                } while (std::next_permutation(perm.begin(), perm.end()));
                c.event("cells_with_all_permutations");
            }
            else
            {
                for (int rep = 0; rep < (thorough ? 40 : 12); ++rep)
                {
                    EvalOpts o;
                    o.executor = 2;
                    if (rep == 0)
                        std::reverse(perm.begin(), perm.end());
                    else if (rep == 1)
                    {
                        // strided
                        std::vector<int> p2;
                        for (int st = 0; st < 3; ++st)
                            for (int i = st; i < cl.N; i += 3)
                                p2.push_back(i);
                        perm = p2;
                    }
                    else
                        r.shuffle(perm);
                    o.perm = perm;
                    runWith(o, "permutation " + jveci(perm));
                }
            }
            // threaded executor with random partitions
            for (int rep = 0; rep < (thorough ? 12 : 4); ++rep)
            {
                EvalOpts o;
                o.executor = 3;
                o.threads = r.pick(std::vector<int>{2, 3, 4, 8});
                o.partitionSeed = r.u64();
                runWith(o, "threads=" + std::to_string(o.threads));
            }
            // a persistent worker pool (threads older than the call), the caller taking a share of the segments itself
            for (int rep = 0; rep < (thorough ? 8 : 3); ++rep)
            {
                EvalOpts o;
                o.executor = 5;
                o.threads = r.pick(std::vector<int>{1, 2, 3});
                o.partitionSeed = r.u64();
                runWith(o, "persistent_pool=" + std::to_string(o.threads));
                c.event("schedules_run.persistent_pool");
            }
        }
    }
}

// ------------------------------------------------------------------ C15
struct LiveOpt
{
    std::unique_ptr<IOptimizer> opt;
    OptCase cfg;
    int tmH = -1, smH = -1;
    bool valid = true;
    bool hasInternalWs = false;
};
inline void runC15(Ctx &c)
{
    const bool thorough = c.a.tier == "thorough";
    const uint64_t per = c.count(thorough ? 150 : 14);
    for (auto od : optCells())
    {
        const int order = od.first, dim = od.second;
        if (!selected(c.a.orders, order) || !selected(c.a.dims, dim))
            continue;
        for (int combo : {0, 2})
        {
            std::string cell = "copy_o" + std::to_string(order) + "d" + std::to_string(dim) + "m" + std::to_string(combo);
            if (!c.cellSelected(cell))
                continue;
            for (uint64_t idx = 0; idx < per; ++idx)
            {
                if (!c.mine(idx))
                    continue;
                Rng r = c.beginCase(cell, idx);
                std::vector<std::string> trace;
                c.dump = [&]()
                {
                    std::string s = "[";
                    for (size_t i = 0; i < trace.size(); ++i)
                        s += (i ? "," : "") + jstr(trace[i]);
                    return JObj().raw("history", s + "]").done();
                };
                std::unique_ptr<IOptEnv> env = makeOptEnv(order, dim, combo);
                std::vector<int> tmPool, smPool, wsPool;
                std::vector<UserTimeMapCfg> tmCfg;
                std::vector<UserSpatialMapCfg> smCfg;
                for (int q = 0; q < 2; ++q)
                {
                    tmCfg.push_back(genTimeMapCfg(r));
                    smCfg.push_back(genSpatialMapCfg(r, dim));
                    tmPool.push_back(env->newTimeMap(tmCfg[q]));
                    smPool.push_back(env->newSpatialMap(smCfg[q]));
                    wsPool.push_back(env->newWorkspace());
                }
                std::vector<LiveOpt> live;
                auto applyCfg = [&](LiveOpt &L) -> bool
                {
                    L.opt->setTimeMap(L.tmH);
                    L.opt->setSpatialMap(L.smH);
                    bool ok = L.cfg.initByPoints ? L.opt->setInitPts(L.cfg.ref.timePoints(), L.cfg.ref.P, L.cfg.ref.bc) : L.opt->setInitDur(L.cfg.ref.T, L.cfg.ref.P, L.cfg.ref.t0, L.cfg.ref.bc);
                    L.opt->setFlags(L.cfg.flags);
                    L.opt->setRho(L.cfg.rho);
                    L.opt->setSteps(L.cfg.K);
                    return ok;
                };
                auto newCfg = [&](LiveOpt &L)
                {
                    L.cfg = genOptCase(r, order, dim, r.range(1, 6), combo);
                    L.cfg.K = r.pick(std::vector<int>{1, 2, 4});
                    int kt = r.range(-1, 1), ks = r.range(-1, 1);
                    L.tmH = kt < 0 ? -1 : tmPool[kt];
                    L.smH = ks < 0 ? -1 : smPool[ks];
                    L.cfg.userTm = kt >= 0;
                    L.cfg.userSm = ks >= 0;
                    if (kt >= 0)
                        L.cfg.tmc = tmCfg[kt];
                    if (ks >= 0)
                        L.cfg.smc = smCfg[ks];
                };
                {
                    LiveOpt L;
                    L.opt = env->makeOptimizer();
                    newCfg(L);
                    if (!applyCfg(L))
                        continue;
                    live.push_back(std::move(L));
                    trace.push_back("create obj0");
                }
                uint64_t hh = 0;
                const int len = r.range(5, thorough ? 30 : 16);
                // evaluates object q with its built-in workspace and checks value, map identity and spline address
                auto checkObj = [&](size_t q, const std::string &when)
                {
                    LiveOpt &L = live[q];
                    OptRig view;
                    view.env = nullptr;
                    // decision vector from the model of this object's configuration
                    OptRig tmp;
                    tmp.env = makeOptEnv(order, dim, combo);
                    tmp.tmH = L.cfg.userTm ? tmp.env->newTimeMap(L.cfg.tmc) : -1;
                    tmp.smH = L.cfg.userSm ? tmp.env->newSpatialMap(L.cfg.smc) : -1;
                    VectorXd x = genDecisionVector(r, L.cfg, tmp);
                    if (r.coin(0.5))
                    {
                        // the starting point an optimisation of this object would use belongs to ITS configuration as well
                        VectorXd g0 = L.opt->initialGuess(), gm = initialGuessModel(L.cfg, *tmp.env, tmp.tmH, tmp.smH);
                        bool ok = g0.size() == gm.size();
                        for (int i = 0; ok && i < g0.size(); ++i)
                            ok = std::fabs(g0(i) - gm(i)) <= 1e-12 * (1 + std::fabs(gm(i)));
                        c.require("C15.initial_guess_follows_own_configuration", ok, okey(L.cfg, "copy_value"), when + " obj" + std::to_string(q));
                        c.event("initial_guess_checks");
                    }
                    std::vector<const void *> tlog, slog;
                    g_timeMapCallLog = &tlog;
                    g_spatialMapCallLog = &slog;
                    EvalOpts eo;
                    eo.threeCosts = r.coin(0.7);
                    eo.ws = r.coin(0.7) ? -1 : wsPool[r.range(0, 1)];
                    EvalResult got;
                    got.cost = L.opt->evaluate(x, got.grad, L.cfg.prog, eo);
                    g_timeMapCallLog = nullptr;
                    g_spatialMapCallLog = nullptr;
                    if (eo.ws < 0)
                        L.hasInternalWs = true;
                    EvalResult fresh = evalFreshFull(L.cfg, x, eo.threeCosts);
                    c.require("C15.object_evaluates_like_its_configuration", sameResult(got, fresh, false), okey(L.cfg, "copy_value"), when + " obj" + std::to_string(q));
                    c.event("object_evaluations");
                    if (combo == 2)
                    {
                        const char *lo = (const char *)L.opt->addr(), *hi = lo + L.opt->size();
                        bool tOk = !tlog.empty(), sOk = true; // the spatial map is only consulted when some waypoint is optimised
                        for (const void *p : tlog)
                            tOk = tOk && (L.tmH < 0 ? ((const char *)p >= lo && (const char *)p < hi) : p == env->timeMapAddr(L.tmH));
                        for (const void *p : slog)
                            sOk = sOk && (L.smH < 0 ? ((const char *)p >= lo && (const char *)p < hi) : p == env->spatialMapAddr(L.smH));
                        c.require("C15.time_map_instance_is_own_default_or_registered_user_map", tOk, okey(L.cfg, "map_identity"), when + " obj" + std::to_string(q));
                        c.require("C15.spatial_map_instance_is_own_default_or_registered_user_map", sOk, okey(L.cfg, "map_identity"), when + " obj" + std::to_string(q));
                        c.event("map_calls_logged", tlog.size() + slog.size());
                    }
                };
                for (int step = 0; step < len && !c.case_failed; ++step)
                {
                    int op = r.range(0, 7);
                    int a = r.range(0, (int)live.size() - 1);
                    switch (op)
                    {
                    case 0: // copy-construct (before or after the source owns a built-in workspace)
                        if (live.size() < 5)
                        {
                            LiveOpt L;
                            const bool byMove = r.coin(0.3); // construction from an rvalue whose storage is released straight afterwards
                            L.opt = byMove ? live[a].opt->cloneByMove() : live[a].opt->clone();
                            c.event(byMove ? "op.construct_from_rvalue" : "op.copy_construct");
                            L.cfg = live[a].cfg;
                            L.tmH = live[a].tmH;
                            L.smH = live[a].smH;
                            L.hasInternalWs = live[a].hasInternalWs;
                            trace.push_back("copy obj" + std::to_string(a) + (live[a].hasInternalWs ? " (owns ws)" : " (no ws)") + " -> obj" + std::to_string(live.size()));
                            // the copy's exposed spline (if any) equals the source's at copy time but lives elsewhere
                            if (live[a].hasInternalWs)
                            {
                                auto s1 = live[a].opt->optimalSpline(), s2 = L.opt->optimalSpline();
                                c.require("C15.copy_owns_its_workspace", s1 && s2 && L.opt->optimalSplineAddr() != live[a].opt->optimalSplineAddr() && bitEqualMat(s1->coeffs(), s2->coeffs()), okey(L.cfg, "workspace_sharing"));
                            }
                            live.push_back(std::move(L));
                        }
                        break;
                    case 1: // assign
                    {
                        int b = r.range(0, (int)live.size() - 1);
                        if (b == a)
                        {
                            auto before = live[a].opt->optimalSpline();
                            live[a].opt->selfAssign();
                            trace.push_back("self_assign obj" + std::to_string(a));
                            auto after = live[a].opt->optimalSpline();
                            bool ok = (!before && !after) || (before && after && bitEqualMat(before->coeffs(), after->coeffs()));
                            c.require("C15.self_assignment_keeps_workspace", ok, okey(live[a].cfg, "self_assignment"));
                        }
                        else
                        {
                            const bool byMove = r.coin(0.3);
                            if (byMove)
                                live[b].opt->assignFromMoved(*live[a].opt);
                            else
                                live[b].opt->assignFrom(*live[a].opt);
                            c.event(byMove ? "op.assign_from_rvalue" : "op.assign");
                            live[b].cfg = live[a].cfg;
                            live[b].tmH = live[a].tmH;
                            live[b].smH = live[a].smH;
                            trace.push_back("assign obj" + std::to_string(b) + (live[b].hasInternalWs ? "(owns ws)" : "") + " = obj" + std::to_string(a) + (live[a].hasInternalWs ? "(owns ws)" : ""));
                            live[b].hasInternalWs = live[a].hasInternalWs;
                            if (live[a].hasInternalWs)
                                c.require("C15.copy_owns_its_workspace", live[b].opt->optimalSplineAddr() != live[a].opt->optimalSplineAddr() && live[b].opt->optimalSplineAddr() != nullptr, okey(live[b].cfg, "workspace_sharing"));
                        }
                        break;
                    }
                    case 2: // mutate: new initial state
                    {
                        OptCase n2 = genOptCase(r, order, dim, r.range(1, 7), combo);
                        live[a].cfg.ref = n2.ref;
                        live[a].cfg.initByPoints = n2.initByPoints;
                        applyCfg(live[a]);
                        trace.push_back("setInitState obj" + std::to_string(a) + " N=" + std::to_string(n2.ref.N));
                        break;
                    }
                    case 3: // mutate: flags / weights / steps
                        live[a].cfg.flags = OptFlags::fromByte(r.range(0, 255));
                        live[a].cfg.rho = r.coin() ? 0.0 : r.uni(0.01, 1.0);
                        live[a].cfg.K = r.pick(std::vector<int>{1, 2, 3, 5});
                        live[a].opt->setFlags(live[a].cfg.flags);
                        live[a].opt->setRho(live[a].cfg.rho);
                        live[a].opt->setSteps(live[a].cfg.K);
                        trace.push_back("set flags/rho/steps obj" + std::to_string(a));
                        break;
                    case 4: // mutate: set / reset user maps
                    {
                        int kt = r.range(-1, 1), ks = r.range(-1, 1);
                        live[a].tmH = kt < 0 ? -1 : tmPool[kt];
                        live[a].smH = ks < 0 ? -1 : smPool[ks];
                        live[a].cfg.userTm = kt >= 0;
                        live[a].cfg.userSm = ks >= 0;
                        if (kt >= 0)
                            live[a].cfg.tmc = tmCfg[kt];
                        if (ks >= 0)
                            live[a].cfg.smc = smCfg[ks];
                        live[a].opt->setTimeMap(live[a].tmH);
                        live[a].opt->setSpatialMap(live[a].smH);
                        trace.push_back("set maps obj" + std::to_string(a) + " tm=" + std::to_string(kt) + " sm=" + std::to_string(ks));
                        break;
                    }
                    case 5: // destroy (the heap object is freed; copies must not depend on it)
                        if (live.size() > 1)
                        {
                            trace.push_back("destroy obj" + std::to_string(a));
                            live.erase(live.begin() + a);
                        }
                        break;
                    default: // evaluate one object, then verify nobody else's exposed spline moved
                    {
                        std::vector<MatrixXd> before;
                        for (auto &L : live)
                        {
                            auto s = L.opt->optimalSpline();
                            before.push_back(s ? s->coeffs() : MatrixXd());
                        }
                        checkObj(a, "evaluate");
                        bool indep = true;
                        for (size_t q = 0; q < live.size(); ++q)
                            if ((int)q != a)
                            {
                                auto s = live[q].opt->optimalSpline();
                                MatrixXd now = s ? s->coeffs() : MatrixXd();
                                indep = indep && bitEqualMat(now, before[q]);
                            }
                        c.require("C15.evaluating_one_object_leaves_others_unchanged", indep, okey(live[a].cfg, "workspace_sharing"));
                        trace.push_back("evaluate obj" + std::to_string(a));
                        break;
                    }
                    }
                    hh = mix64(hh, hashStr(trace.back().c_str()));
                    c.event("ops");
                    // not after every op and not every object: an evaluation rebuilds lazy state, so always querying everything
                    // would hide defects that need "reconfigured but not yet queried" objects to be copied or assigned
                    for (size_t q = 0; q < live.size() && !c.case_failed; ++q)
                        if (r.coin(0.45) || step + 1 == len)
                            checkObj(q, "after step " + std::to_string(step) + " (" + trace.back() + ")");
                }
                c.nontrivial(hh);
                if (idx < 1)
                    c.wantSample();
            }
        }
    }
    // spline objects: copies are independent of their source
    for (auto od : splineCells())
    {
        std::string cell = "spline_o" + std::to_string(od.first) + "d" + std::to_string(od.second);
        if (!c.cellSelected(cell) || !selected(c.a.dims, od.second) || !selected(c.a.orders, od.first))
            continue;
        for (uint64_t idx = 0; idx < per; ++idx)
        {
            if (!c.mine(idx))
                continue;
            Rng r = c.beginCase(cell, idx);
            Problem p = genProblem(r, od.first, od.second, r.range(1, 9));
            c.dump = [&]() { return dumpProblem(p); };
            auto src = makeSplineDur(p);
            if (r.coin())
                (void)src->trajEval(p.t0, 1);
            Upstream u = genUpstream(r, p, 0);
            std::unique_ptr<ISpline> cp;
            if (r.coin())
                cp = src->clone();
            else
            {
                cp = makeSpline(od.first, od.second);
                if (r.coin())
                {
                    Problem q0 = genProblem(r, od.first, od.second, r.range(1, 9));
                    cp->updateDur(q0.T, q0.P, q0.t0, q0.bc);
                }
                cp->assignFrom(*src);
            }
            std::vector<double> ts{p.t0, p.t0 + 0.3 * p.T[0]};
            Observables o0 = observe(*src, u, ts, true);
            if (r.coin())
                (void)observe(*cp, u, ts, false); // the copy may or may not have been evaluated before the source changes
            // snapshots of the exposed trajectory taken through the copy getters are independent objects as well
            auto snap = src->trajectoryCopy(r.coin());
            const MatrixXd snapC = snap->coefficients();
            std::vector<VectorXd> snapVals;
            const double tsn = p.t0 + r.uni(0, 1) * p.T[0];
            for (int k = 0; k <= 2; ++k)
                snapVals.push_back(snap->eval(tsn, k));
            bool snapChecked = false;
            // mutate (and use) or destroy the source
            if (r.coin(0.7))
            {
                Problem q = genProblem(r, od.first, od.second, r.coin() ? p.N : r.range(1, 9));
                if (r.coin(0.3))
                {
                    // a reference bound to the result of a copy getter, read after the source has moved on
                    MatrixXd cRef;
                    std::vector<double> bpRef;
                    const MatrixXd cNow = src->coeffs();
                    const std::vector<double> bpNow = src->breakpoints();
                    src->copyRefThenUpdate(r.coin(), q.T, q.P, q.t0, q.bc, cRef, bpRef);
                    c.require("C15.reference_to_trajectory_copy_is_a_snapshot", bitEqualMat(cRef, cNow) && bitEqualVec(bpRef, bpNow), gkey(p, "spline_copy"));
                    c.event("spline_copy.reference_bound_to_copy_getter");
                }
                else if (r.coin())
                    src->updateDur(q.T, q.P, q.t0, q.bc);
                else
                    src->updatePts(q.timePoints(), q.P, q.bc);
                {
                    bool same = bitEqualMat(snap->coefficients(), snapC);
                    for (int k = 0; k <= 2; ++k)
                        same = same && bitEqualMat(snap->eval(tsn, k), snapVals[k]);
                    c.require("C15.trajectory_snapshot_independent_of_source", same, gkey(p, "spline_copy"));
                    snapChecked = true;
                }
                if (r.coin(0.8))
                {
                    std::vector<double> tq{q.t0, q.t0 + 0.3 * q.T[0]};
                    (void)observe(*src, genUpstream(r, q, 0), tq, true); // the source rebuilds its caches first
                }
                if (r.coin(0.3))
                    src.reset();
            }
            else
                src.reset();
            if (!snapChecked)
            {
                bool same = bitEqualMat(snap->coefficients(), snapC);
                for (int k = 0; k <= 2; ++k)
                    same = same && bitEqualMat(snap->eval(tsn, k), snapVals[k]);
                c.require("C15.trajectory_snapshot_independent_of_source", same, gkey(p, "spline_copy"));
            }
            Observables o1 = observe(*cp, u, ts, true);
            c.require("C15.spline_copy_independent_of_source", compareObs(o1, o0, true).empty(), gkey(p, "spline_copy"), compareObs(o1, o0, true));
            cp->selfAssign();
            Observables o2 = observe(*cp, u, ts, true);
            c.require("C15.spline_self_assignment_harmless", compareObs(o2, o0, true).empty(), gkey(p, "spline_copy"));
            c.nontrivial(hashProblem(p));
            c.event("spline_copy_checks");
        }
    }
}

// ------------------------------------------------------------------ C16 (optimizer part)
struct ValidityInput
{
    std::vector<double> T;
    MatrixXd P;
    double t0 = 0;
    BC bc;
    bool byPoints = false;
    std::vector<double> tp;
};
// the predicate, restated from the property text
inline bool validityModel(int order, const ValidityInput &in)
{
    const int s = (order + 1) / 2;
    const int n = (int)in.T.size();
    if (n < 1)
        return false;
    if (in.P.rows() != n + 1)
        return false;
    if (!std::isfinite(in.t0))
        return false;
    for (double t : in.T)
        if (!std::isfinite(t) || !(t >= 1e-3))
            return false;
    for (int i = 0; i < in.P.rows(); ++i)
        for (int j = 0; j < in.P.cols(); ++j)
            if (!std::isfinite(in.P(i, j)))
                return false;
    for (int d = 1; d <= s - 1; ++d)
        for (int j = 0; j < in.bc.s(d).size(); ++j)
            if (!std::isfinite(in.bc.s(d)(j)) || !std::isfinite(in.bc.e(d)(j)))
                return false;
    return true;
}
inline void c16Apply(Ctx &c, IOptimizer &opt, int order, int dim, ValidityInput in, const std::string &what, int combo, IOptimizer *other = nullptr,
                     const ValidityInput *otherIn = nullptr)
{
    // effective inputs for the time-point overload
    ValidityInput eff = in;
    bool emptyPoints = false;
    if (in.byPoints)
    {
        if (in.tp.empty())
            emptyPoints = true;
        else
        {
            eff.T.clear();
            for (size_t i = 1; i < in.tp.size(); ++i)
                eff.T.push_back(in.tp[i] - in.tp[i - 1]);
            eff.t0 = in.tp.front();
        }
    }
    bool expect = emptyPoints ? false : validityModel(order, eff);
    bool got = in.byPoints ? opt.setInitPts(in.tp, in.P, in.bc) : opt.setInitDur(in.T, in.P, in.t0, in.bc);
    std::string key = JObj().i("order", order).i("dim", dim).i("combo", combo).str("equation", "validation").str("input", what).b("expected", expect).done();
    c.require("C16.verdict_equals_predicate", got == expect, key, what);
    c.require("C16.flag_and_bool_conversion_equal_verdict", opt.isValid() == got && opt.boolConv() == got, key, what);
    std::string err = opt.lastError();
    c.require("C16.message_available_exactly_when_rejected", err.empty() == got, key, what + " message='" + err.substr(0, 80) + "'");
    if (!emptyPoints)
    {
        std::string m2 = "stale";
        bool v2 = opt.checkValidity(&m2);
        // asking for the details must not consume the stored message
        const bool kept = opt.lastError().empty() == got;
        c.require("C16.checkValidity_agrees", v2 == got && m2.empty() == got && opt.checkValidity(nullptr) == got, key, what);
        c.require("C16.message_still_available_after_detail_query", kept, key, what);
    }
    // the message belongs to this object's latest initialisation: still there after details were asked for ...
    c.require("C16.message_still_available_after_detail_query", opt.lastError().empty() == got && opt.isValid() == got, key, what);
    if (other && otherIn)
    {
        // ... and untouched by what happens to another optimizer of the same type in the meantime
        (void)(otherIn->byPoints ? other->setInitPts(otherIn->tp, otherIn->P, otherIn->bc) : other->setInitDur(otherIn->T, otherIn->P, otherIn->t0, otherIn->bc));
        c.require("C16.verdict_and_message_are_per_object", opt.lastError().empty() == got && opt.isValid() == got && opt.boolConv() == got, key,
                  what + " / other object then " + (other->isValid() ? "accepted" : "rejected") + " its input");
        c.event("second_object_initialised_in_between");
    }
    c.event(expect ? "expected.accept" : "expected.reject");
    c.event("placement." + what.substr(0, what.find_first_of(" [")));
    c.evaluations++;
    c.nontrivial(mix64(hashStr(what.c_str()), hashStr(c.cell.c_str())));
}
inline void runC16opt(Ctx &c)
{
    const bool thorough = c.a.tier == "thorough";
    const double NaN = std::nan(""), Inf = INFINITY;
    for (auto od : optCells())
    {
        const int order = od.first, dim = od.second;
        if (!selected(c.a.orders, order) || !selected(c.a.dims, dim))
            continue;
        if (!thorough && dim == 4)
            continue;
        static const std::vector<int> nq{1, 2, 4}, nt{1, 2, 3, 5, 9};
        for (int N : (thorough ? nt : nq))
        {
            std::string cell = "valid_o" + std::to_string(order) + "d" + std::to_string(dim) + "N" + std::to_string(N);
            if (!c.cellSelected(cell))
                continue;
            uint64_t idx = 0;
            if (!c.mine((uint64_t)(order * 100 + dim * 10 + N)))
                continue;
            Rng r = c.beginCase(cell, idx);
            const int combo = (order + dim + N) % 3;
            auto env = makeOptEnv(order, dim, combo);
            auto opt = env->makeOptimizer(); // one object: valid -> invalid -> valid histories
            auto optB = env->makeOptimizer(); // a second object of the same type, initialised in between
            GenOpts go;
            go.ratio_cap = 3;
            go.data_class = 0;
            Problem base = genProblem(r, order, dim, N, go);
            for (int d = 1; d <= 3; ++d)
                for (int j = 0; j < dim; ++j)
                {
                    base.bc.s(d)(j) = r.normal();
                    base.bc.e(d)(j) = r.normal();
                }
            std::string last;
            c.dump = [&]() { return JObj().str("last_input", last).raw("base", dumpProblem(base)).done(); };
            auto mk = [&](bool byPoints) -> ValidityInput
            {
                ValidityInput in;
                in.T = base.T;
                in.P = base.P;
                in.t0 = base.t0;
                in.bc = base.bc;
                in.byPoints = byPoints;
                in.tp = base.timePoints();
                return in;
            };
            uint64_t hh = hashProblem(base);
            auto apply = [&](ValidityInput in, const std::string &what)
            {
                last = what;
                // which quantities are optimised has no bearing on validity
                if (r.coin(0.6))
                    opt->setFlags(OptFlags::fromByte(r.coin(0.3) ? 255 : r.range(0, 255)));
                if (r.coin(0.5))
                {
                    ValidityInput oi = mk(r.coin());
                    if (r.coin())
                    {
                        oi.T[0] = NaN;
                        oi.tp[1] = NaN;
                    }
                    c16Apply(c, *opt, order, dim, in, what, combo, optB.get(), &oi);
                }
                else
                    c16Apply(c, *opt, order, dim, in, what, combo);
                hh = mix64(hh, hashStr(what.c_str()));
                // after every rejection a valid state must be accepted again (verdict tracks the latest call)
                if (r.coin(0.5))
                    c16Apply(c, *opt, order, dim, mk(r.coin()), "valid_base (after " + what + ")", combo);
            };
            apply(mk(false), "valid_base durations");
            apply(mk(true), "valid_base timepoints");
            for (double bad : {NaN, Inf, -Inf})
            {
                std::string bn = std::isnan(bad) ? "nan" : (bad > 0 ? "+inf" : "-inf");
                for (int byPts = 0; byPts < 2; ++byPts)
                {
                    // start time
                    {
                        ValidityInput in = mk(byPts);
                        in.t0 = bad;
                        if (byPts)
                            in.tp[0] = bad;
                        apply(in, "start_time " + bn);
                    }
                    // every duration / time point
                    for (int i = 0; i < N; ++i)
                    {
                        ValidityInput in = mk(byPts);
                        in.T[i] = bad;
                        if (byPts)
                            in.tp[i + 1] = bad;
                        apply(in, "duration[" + std::to_string(i) + "] " + bn);
                    }
                    // every waypoint coordinate
                    for (int i = 0; i <= N; ++i)
                        for (int j = 0; j < dim; ++j)
                        {
                            ValidityInput in = mk(byPts);
                            in.P(i, j) = bad;
                            apply(in, "waypoint[" + std::to_string(i) + "," + std::to_string(j) + "] " + bn);
                        }
                    // every boundary vector x coordinate (the order decides which matter)
                    for (int side = 0; side < 2; ++side)
                        for (int d = 1; d <= 3; ++d)
                            for (int j = 0; j < dim; ++j)
                            {
                                ValidityInput in = mk(byPts);
                                (side == 0 ? in.bc.s(d) : in.bc.e(d))(j) = bad;
                                apply(in, std::string("boundary_") + (side == 0 ? "start" : "end") + "_d" + std::to_string(d) + "[" + std::to_string(j) + "] " + bn);
                            }
                }
            }
            // pairs of placements
            for (int q = 0; q < (thorough ? 60 : 15); ++q)
            {
                ValidityInput in = mk(r.coin());
                std::string what = "pair";
                for (int k = 0; k < 2; ++k)
                {
                    double bad = r.pick(std::vector<double>{NaN, Inf, -Inf});
                    int f = r.range(0, 3);
                    if (f == 0)
                    {
                        int i = r.range(0, N - 1);
                        in.T[i] = bad;
                        if (in.byPoints)
                            in.tp[i + 1] = bad;
                        what += " dur";
                    }
                    else if (f == 1)
                    {
                        in.P(r.range(0, N), r.range(0, dim - 1)) = bad;
                        what += " wp";
                    }
                    else if (f == 2)
                    {
                        int d = r.range(1, 3);
                        (r.coin() ? in.bc.s(d) : in.bc.e(d))(r.range(0, dim - 1)) = bad;
                        what += " bc" + std::to_string(d);
                    }
                    else
                    {
                        // a field the order does not use (the septic uses all of them)
                        if (order < 7)
                        {
                            int d = r.range((order + 1) / 2, 3);
                            (r.coin() ? in.bc.s(d) : in.bc.e(d))(r.range(0, dim - 1)) = bad;
                            what += " bc_unused" + std::to_string(d);
                        }
                    }
                }
                apply(in, what);
            }
            // size mismatches
            {
                ValidityInput in = mk(false);
                in.P = base.P.topRows(N);
                apply(in, "size waypoints=N");
                in = mk(false);
                in.P.conservativeResize(N + 2, dim);
                in.P.row(N + 1).setZero();
                apply(in, "size waypoints=N+2");
                in = mk(false);
                in.P.resize(0, dim);
                apply(in, "size waypoints=0");
                in = mk(false);
                in.T.clear();
                apply(in, "size no_durations");
                in = mk(false);
                in.T.clear();
                in.P = base.P.topRows(1);
                apply(in, "size no_durations_one_waypoint");
                in = mk(true);
                in.tp.clear();
                apply(in, "size empty_time_points");
                in = mk(true);
                in.tp.resize(1);
                in.P = base.P.topRows(1);
                apply(in, "size one_time_point");
                in = mk(true);
                in.tp.resize(1);
                apply(in, "size one_time_point_many_waypoints");
                in = mk(false);
                in.T.push_back(1.0);
                apply(in, "size extra_duration");
            }
            // durations around the one-millisecond threshold
            for (double dv : {1e-3, std::nextafter(1e-3, 0.0), std::nextafter(1e-3, 1.0), 0.0, -1.0, 4.9e-324, 9.99e-4, 1.0000001e-3, 1e-300, -1e-3})
                for (int i : {0, N - 1})
                {
                    ValidityInput in = mk(false);
                    in.T[i] = dv;
                    char b[64];
                    snprintf(b, sizeof b, "threshold duration[%d]=%a", i, dv);
                    apply(in, b);
                }
            // the same thresholds through the time-point overload (the effective duration is the rounded difference)
            for (double dv : {1e-3, std::nextafter(1e-3, 0.0), std::nextafter(1e-3, 1.0), 1e-3 - 5e-10, 1e-3 - 1e-12, 1e-3 + 1e-12, 9.999999e-4, 9.99e-4})
                for (int i : {0, N - 1})
                {
                    ValidityInput in = mk(true);
                    // rebuild the points from zero so that differences are representable as intended
                    in.tp[0] = 0.0;
                    for (int q = 0; q < N; ++q)
                        in.tp[q + 1] = in.tp[q] + (q == i ? dv : base.T[q]);
                    char b[64];
                    snprintf(b, sizeof b, "threshold time_point_gap[%d]=%a", i, dv);
                    apply(in, b);
                }
            // extreme but finite values are valid: the predicate is per element (a running sum of the durations may overflow)
            {
                const double Big = 1e308, Max = std::numeric_limits<double>::max();
                ValidityInput in = mk(false);
                for (auto &t : in.T)
                    t = Big;
                apply(in, "extreme all_durations_1e308");
                in = mk(false);
                in.T[0] = Max;
                in.T[N - 1] = Max;
                apply(in, "extreme first_and_last_duration_DBL_MAX");
                in = mk(false);
                in.t0 = 1.2e308;
                in.T[N - 1] = Big;
                apply(in, "extreme start_1.2e308_plus_duration_1e308");
                in = mk(false);
                in.t0 = -Max;
                apply(in, "extreme start_minus_DBL_MAX");
                in = mk(r.coin());
                in.P(r.range(0, N), r.range(0, dim - 1)) = r.coin() ? Max : -Max;
                apply(in, "extreme waypoint_DBL_MAX");
                in = mk(r.coin());
                (r.coin() ? in.bc.s(1) : in.bc.e(1))(r.range(0, dim - 1)) = -Max;
                apply(in, "extreme boundary_velocity_DBL_MAX");
                in = mk(true);
                in.tp[0] = -Big;
                for (int q = 0; q < N; ++q)
                    in.tp[q + 1] = in.tp[q] + 2.0 * Big / N;
                apply(in, "extreme time_points_spanning_2e308");
            }
            // by time points: equal / decreasing points give zero / negative durations
            {
                ValidityInput in = mk(true);
                if (N >= 1)
                {
                    in.tp[1] = in.tp[0];
                    apply(in, "threshold repeated_time_point");
                    in = mk(true);
                    in.tp[1] = in.tp[0] - 0.5;
                    apply(in, "threshold decreasing_time_points");
                }
            }
            c.nontrivial(hh);
            c.wantSample();
        }
    }
}

// ------------------------------------------------------------------ C19
inline void runC19(Ctx &c)
{
    const bool thorough = c.a.tier == "thorough";
    static const std::vector<int> nq{1, 2, 3, 5}, nt{1, 2, 3, 4, 5};
    auto cells = optCellList(c, thorough ? nt : nq, {0, 2});
    for (auto &cl : cells)
    {
        if (!thorough && cl.dim == 4)
            continue;
        const uint64_t per = c.count(thorough ? 40 : 4);
        for (uint64_t idx = 0; idx < per; ++idx)
        {
            if (!c.mine(idx))
                continue;
            Rng r = c.beginCase(cl.name, idx);
            OptCase oc = genOptCase(r, cl.order, cl.dim, cl.N, cl.combo);
            // smooth low-energy problems so that most cases are inside the helper's own accuracy domain
            oc.rho = r.coin(0.5) ? 0.0 : r.logUni(1e-4, 1e-2);
            oc.K = r.pick(std::vector<int>{1, 2, 4, 8});
            for (auto &t : oc.ref.T)
                t = r.uni(0.8, 2.0);
            oc.prog = CostProgram::generate(r, cl.dim, r.coin(0.5) ? 0 : -1);
            OptRig rig = buildRig(oc);
            VectorXd x;
            std::string pertDesc = "none";
            c.dump = [&]() { return JObj().str("perturbation", pertDesc).raw("case", dumpOptCase(oc, &x)).done(); };
            if (!c.require("C19.reference_state_accepted", initRig(rig, oc), okey(oc, "setup")))
                continue;
            c.event(std::string("optimizer_route.") + routeViaCopy(r, rig));
            x = genDecisionVector(r, oc, rig, 0.5);
            const VectorXd x_in = x;
            c.nontrivial(hashOptCase(oc, &x));
            if (idx < 1)
                c.wantSample();
            const bool three = r.coin(0.6);
            const bool defaults = r.coin(0.5);
            const double eps = defaults ? 1e-6 : r.pick(std::vector<double>{1e-3, 1e-4, 1e-5, 1e-6, 3e-7});
            const double tol = defaults ? 1e-4 : r.pick(std::vector<double>{1e-3, 1e-4, 1e-5});
            const int wsH = r.coin(0.5) ? -1 : rig.env->newWorkspace();
            if (r.coin(0.5))
            {
                // the optimizer was used with another configuration before (layout built), then reconfigured; nothing is
                // queried between the reconfiguration and the self-check
                OptFlags other = OptFlags::fromByte(r.range(0, 255));
                rig.opt->setFlags(other);
                if (r.coin())
                    (void)rig.opt->getDimension();
                else
                    (void)rig.opt->initialGuess();
                if (r.coin(0.3))
                {
                    OptCase o2 = genOptCase(r, cl.order, cl.dim, r.range(1, 6), cl.combo);
                    o2.userTm = o2.userSm = false;
                    (void)rig.opt->setInitDur(o2.ref.T, o2.ref.P, o2.ref.t0, o2.ref.bc);
                    (void)rig.opt->getDimension();
                    (void)initRig(rig, oc);
                }
                rig.opt->setFlags(oc.flags);
                c.event("self_check_after_unqueried_reconfiguration");
            }
            if (cl.N >= 2 && r.coin(0.25))
            {
                // an earlier self-check on the same optimizer / workspace was aborted by an exception from the user's callback
                CostProgram pr = oc.prog;
                if (r.coin())
                    pr.throw_at_seg = r.range(1, cl.N - 1); // already in the first evaluation of the self-check
                else
                {
                    // in the middle of the finite-difference sweep
                    const long perEval = (long)cl.N * (oc.K + 1);
                    pr.throw_at_call = perEval * r.range(1, 4) + r.range(1, (int)perEval);
                    pr.call_count = 0;
                }
                bool thrown = rig.opt->checkGradientsThrows(r.coin() ? x : genDecisionVector(r, oc, rig, 0.5), pr, three, wsH);
                c.event(thrown ? "history.self_check_aborted_by_callback_exception" : "history.callback_exception_not_reached");
            }
            else if (cl.N >= 2 && r.coin(0.2))
            {
                EvalOpts eoA;
                eoA.threeCosts = three;
                eoA.ws = wsH;
                (void)abortedEvaluation(c, r, *rig.opt, oc, eoA, x);
            }
            // three variants: correct functors, then one perturbed gradient component
            for (int variant = 0; variant < 4; ++variant)
            {
                CostProgram prog = oc.prog;
                double rhoV = oc.rho;
                if (variant == 3)
                {
                    // a functor that returns its value but forgets (part of) its gradient, in a problem where nothing else
                    // contributes to the affected variables: the analytic entries are exactly zero and wrong
                    if (!r.coin(0.5))
                        continue;
                    prog = CostProgram::zero(cl.dim);
                    rhoV = 0.0;
                    if (three && r.coin())
                    {
                        prog.has_wp = true;
                        prog.w_quad = r.uni(0.2, 1.0);
                        for (int j = 0; j < cl.dim; ++j)
                            prog.w_target[j] = r.uni(-1, 1);
                        prog.pert = PERT_WP_OMIT_ROW;
                        prog.pert_index = r.range(0, cl.N);
                    }
                    else
                    {
                        prog.has_time = true;
                        for (auto &w : prog.tw)
                            w = r.uni(0.3, 2.0);
                        prog.pert = PERT_TIME_OMIT;
                    }
                    pertDesc = prog.describe();
                    c.event("checks.functor_forgets_gradient");
                }
                struct RhoGuard
                {
                    IOptimizer *o;
                    double back;
                    ~RhoGuard() { o->setRho(back); }
                } rhoGuard{rig.opt.get(), oc.rho};
                rig.opt->setRho(rhoV);
                if (variant == 2)
                {
                    // a functor whose gradient contains a NaN while its value is finite (0/0 at rest): the self-check must not
                    // report success, and must still restore the workspace
                    if (!r.coin(0.5))
                        continue;
                    static const int kinds[] = {PERT_TIME_GRAD, PERT_GP, PERT_GV, PERT_WP_GRAD};
                    prog.pert = kinds[r.range(0, three ? 3 : 2)];
                    prog.pert_index = r.range(0, prog.pert == PERT_WP_GRAD ? cl.N : cl.N - 1);
                    prog.pert_coord = r.range(0, cl.dim - 1);
                    prog.pert_delta = std::nan("");
                    pertDesc = prog.describe();
                    // only meaningful when the NaN reaches the decision-space gradient
                    VectorXd gN;
                    OptCase ocn = oc;
                    ocn.prog = prog;
                    (void)evalFresh(ocn, x, three, &gN);
                    if (allFinite(gN))
                    {
                        c.event("nan_perturbation.without_effect");
                        continue;
                    }
                    CheckResult rn = rig.opt->checkGradients(x, prog, three, wsH, defaults, eps, tol);
                    std::string keyn = okey(oc, "self_check_nan");
                    c.require("C19.nan_gradient_is_not_reported_as_success", !rn.valid, keyn, "error_norm=" + jnum(rn.error_norm));
                    auto sN = wsH < 0 ? rig.opt->optimalSpline() : rig.env->wsSpline(wsH);
                    EvalResult freshN = evalFreshFull(ocn, x, three);
                    c.require("C19.workspace_spline_restored_to_checked_vector", sN && bitEqualMat(sN->coeffs(), freshN.coeffs), keyn);
                    c.event("checks.nan_gradient");
                    continue;
                }
                if (variant == 1)
                {
                    int kind = r.range(0, three ? 7 : 6);
                    static const int kinds[] = {PERT_TIME_GRAD, PERT_GP, PERT_GV, PERT_GA, PERT_GJ, PERT_GS, PERT_GT, PERT_WP_GRAD};
                    prog.pert = kinds[kind];
                    prog.pert_index = r.range(0, prog.pert == PERT_WP_GRAD ? cl.N : cl.N - 1);
                    prog.pert_coord = r.range(0, cl.dim - 1);
                    prog.pert_delta = r.pick(std::vector<double>{1e-2, 0.1, 1.0, 10.0}) * (r.coin() ? 1 : -1);
                    pertDesc = prog.describe();
                }
                OptCase ocv = oc;
                ocv.prog = prog;
                ocv.rho = rhoV;
                CheckResult res = rig.opt->checkGradients(x, prog, three, wsH, defaults, eps, tol);
                c.event(variant == 0 ? "checks.correct_functors" : "checks.perturbed_functors");
                std::string key = okey(oc, variant == 0 ? "self_check_correct" : "self_check_perturbed");
                const int n = (int)x.size();
                if (!c.require("C19.result_shapes", res.analytical.size() == n && res.numerical.size() == n, key))
                    continue;
                c.require("C19.input_vector_unmodified", bitEqualMat(x, x_in), key);
                // (a) reference model of the helper, from its contract
                VectorXd gA;
                double c0 = evalFresh(ocv, x, three, &gA);
                (void)c0;
                c.require("C19.analytical_is_evaluate_gradient", bitEqualMat(res.analytical, gA), key);
                VectorXd num(n);
                double fscale = 0;
                for (int i = 0; i < n; ++i)
                {
                    VectorXd xp = x, xm = x;
                    xp(i) = x(i) + eps;
                    xm(i) = x(i) - eps;
                    double cp = evalFresh(ocv, xp, three), cm = evalFresh(ocv, xm, three);
                    num(i) = (cp - cm) / (2 * eps);
                    fscale = std::max(fscale, std::max(std::fabs(cp), std::fabs(cm)));
                }
                {
                    // not bitwise: an algebraically equivalent difference formula must not alarm; rounding of the
                    // difference quotient is eps_machine * |f| / eps
                    double w = 0;
                    for (int i = 0; i < n; ++i)
                        w = std::max(w, std::fabs(res.numerical(i) - num(i)) / (1e-9 * (std::fabs(num(i)) + 1e-300) + 64 * 2.2e-16 * fscale / eps));
                    c.check("C19.numerical_is_central_difference_of_cost", w, 1.0, key);
                }
                double en = (res.analytical - res.numerical).norm();
                double gn = res.analytical.norm();
                c.check("C19.error_norm_consistent", std::fabs(res.error_norm - en) / (1e-12 * (en + gn) + 1e-300), 1.0, key);
                double relEx = gn > 1e-9 ? en / gn : en;
                c.check("C19.rel_error_consistent", std::fabs(res.rel_error - relEx) / (1e-9 * (relEx + 1e-300) + 1e-300), 1.0, key);
                // verdict follows from the two vectors and the tolerance (skip a razor-thin band around the threshold)
                if (std::fabs(res.error_norm - tol) > 1e-9 * tol)
                    c.require("C19.valid_iff_error_below_tolerance", res.valid == (res.error_norm < tol), key, "error_norm=" + jnum(res.error_norm) + " tol=" + jnum(tol));
                c.require("C19.report_mentions_verdict", res.report.find(res.valid ? "PASSED" : "FAILED") != std::string::npos, key);
                // (b) semantic direction on in-domain cases
                {
                    // the helper's own finite-difference error, measured against the 4th-order oracle with correct functors
                    VectorXd gTrue;
                    OptCase occ = ocv; // the same program with correct functors
                    occ.prog.pert = PERT_NONE;
                    (void)evalFresh(occ, x, three, &gTrue); // gradient of the true cost = analytic gradient with correct functors (decided by C07)
                    VectorXd numTrue(n);
                    for (int i = 0; i < n; ++i)
                    {
                        VectorXd xp = x, xm = x;
                        xp(i) += eps;
                        xm(i) -= eps;
                        numTrue(i) = (evalFresh(occ, xp, three) - evalFresh(occ, xm, three)) / (2 * eps);
                    }
                    // 4th-order oracle for the derivative of the cost value
                    VectorXd g4(n);
                    for (int i = 0; i < n; ++i)
                    {
                        double h = 1e-3 * std::max(1.0, std::fabs(x(i)));
                        double v[4];
                        const double ks[4] = {2, 1, -1, -2};
                        for (int q = 0; q < 4; ++q)
                        {
                            VectorXd x2 = x;
                            x2(i) += ks[q] * h;
                            v[q] = evalFresh(occ, x2, three);
                        }
                        g4(i) = (-v[0] + 8 * v[1] - 8 * v[2] + v[3]) / (12 * h);
                    }
                    double helperFdErr = (numTrue - g4).norm();
                    // effect of the perturbation in decision space, measured independently through evaluate
                    double effect = (gA - gTrue).norm();
                    // ... and the agreement that is achievable at all between the analytic gradient of the correct functors and
                    // the derivative of the cost (rounding of a gradient of magnitude 1e4 and more is not below an absolute 1e-5)
                    const double analyticVsOracle = (gTrue - g4).norm();
                    bool inDomain = helperFdErr <= tol / 10 && analyticVsOracle <= tol / 10;
                    if (helperFdErr > tol / 10)
                        c.event("out_of_domain.helper_fd_error_above_tol_over_10");
                    else if (!inDomain)
                        c.event("out_of_domain.gradient_rounding_above_tol_over_10");
                    else if (variant == 0)
                    {
                        c.require("C19.correct_functors_pass", res.valid, key, "error_norm=" + jnum(res.error_norm) + " helper_fd_err=" + jnum(helperFdErr));
                        c.event("in_domain.correct");
                    }
                    else
                    {
                        if (effect >= 10 * tol)
                        {
                            c.require("C19.wrong_gradient_component_fails", !res.valid, key, "effect=" + jnum(effect) + " error_norm=" + jnum(res.error_norm));
                            c.event("in_domain.perturbed_must_fail");
                        }
                        else if (effect <= tol / 10)
                        {
                            c.require("C19.ineffective_perturbation_still_passes", res.valid, key, "effect=" + jnum(effect) + " error_norm=" + jnum(res.error_norm));
                            c.event("in_domain.perturbation_without_effect");
                        }
                        else
                            c.event("near_threshold.verdict_unconstrained");
                    }
                }
                // (c) state restoration: the workspace spline is the one of the checked x
                {
                    auto s = wsH < 0 ? rig.opt->optimalSpline() : rig.env->wsSpline(wsH);
                    EvalResult fresh = evalFreshFull(ocv, x, three);
                    c.require("C19.workspace_spline_restored_to_checked_vector", s && bitEqualMat(s->coeffs(), fresh.coeffs) && bitEqualVec(s->timeSegments(), fresh.T), key);
                }
            }
        }
    }
}
// ------------------------------------------------------------------ distinct optimizers in concurrent threads
// Every thread owns its environment (maps, workspaces), its optimizer, its problem and its decision vector; nothing is
// shared by the caller.  Evaluations (C07 C08 C09) and gradient self-checks (C19) done under that concurrency are compared
// bitwise with the same calls made alone afterwards; the same workload runs under ThreadSanitizer.
struct ThreadOptObs
{
    EvalResult ev;
    CheckResult ck;
};
inline ThreadOptObs threadOptObserve(const OptCase &oc, const VectorXd &x, bool three, bool selfCheck)
{
    ThreadOptObs o;
    o.ev = evalFreshFull(oc, x, three);
    if (selfCheck)
    {
        OptRig rig = buildRig(oc);
        if (!initRig(rig, oc))
            throw std::runtime_error("threadOptObserve: reference rejected");
        o.ck = rig.opt->checkGradients(x, oc.prog, three, -1, true, 1e-6, 1e-4);
    }
    return o;
}
inline bool threadOptSame(const ThreadOptObs &a, const ThreadOptObs &b, bool selfCheck)
{
    if (!sameResult(a.ev, b.ev))
        return false;
    if (!selfCheck)
        return true;
    return a.ck.valid == b.ck.valid && bitEqualOrBothNaN(a.ck.error_norm, b.ck.error_norm) && bitEqualOrBothNaN(a.ck.rel_error, b.ck.rel_error) &&
           bitEqualMat(a.ck.analytical, b.ck.analytical) && bitEqualMat(a.ck.numerical, b.ck.numerical);
}
inline void runThreadsOpt(Ctx &c)
{
    const bool thorough = c.a.tier == "thorough";
    const std::string prop = c.a.prop;
    const bool selfCheck = prop == "C19";
    const int T = 4;
    const uint64_t per = c.count(thorough ? 20 : 4);
    for (auto od : optCells())
    {
        const int order = od.first, dim = od.second;
        if (!selected(c.a.orders, order) || !selected(c.a.dims, dim))
            continue;
        for (int combo : {0, 2})
        {
            std::string cell = "threads_o" + std::to_string(order) + "d" + std::to_string(dim) + "m" + std::to_string(combo);
            if (!c.cellSelected(cell))
                continue;
            for (uint64_t idx = 0; idx < per; ++idx)
            {
                if (!c.mine(idx))
                    continue;
                Rng r = c.beginCase(cell, idx);
                const bool sameN = r.coin();
                const int N0 = r.range(1, 6);
                std::vector<OptCase> ocs(T);
                std::vector<VectorXd> xs(T);
                std::vector<int> threes(T);
                uint64_t hh = 0;
                for (int t = 0; t < T; ++t)
                {
                    ocs[t] = genOptCase(r, order, dim, sameN ? N0 : r.range(1, 6), combo);
                    ocs[t].K = r.pick(std::vector<int>{2, 4, 8});
                    OptRig tmp = buildRig(ocs[t]);
                    xs[t] = genDecisionVector(r, ocs[t], tmp, 0.5);
                    threes[t] = r.coin(0.7);
                    hh = mix64(hh, hashOptCase(ocs[t], &xs[t]));
                }
                c.dump = [&]() { return dumpOptCase(ocs[0], &xs[0]); };
                c.nontrivial(hh);
                const int reps = thorough ? 30 : 12;
                std::vector<ThreadOptObs> first(T);
                std::vector<int> stable(T, 1);
                std::atomic<int> ready{0};
                std::vector<std::thread> th;
                for (int t = 0; t < T; ++t)
                    th.emplace_back([&, t]()
                                    {
                                        ready.fetch_add(1);
                                        while (ready.load() < T)
                                            std::this_thread::yield();
                                        for (int rep = 0; rep < reps; ++rep)
                                        {
                                            ThreadOptObs o = threadOptObserve(ocs[t], xs[t], threes[t], selfCheck);
                                            if (rep == 0)
                                                first[t] = o;
                                            else if (!threadOptSame(o, first[t], selfCheck))
                                                stable[t] = 0;
                                        } });
                for (auto &x : th)
                    x.join();
                bool allStable = true, allEqual = true;
                for (int t = 0; t < T; ++t)
                {
                    allStable = allStable && stable[t];
                    allEqual = allEqual && threadOptSame(first[t], threadOptObserve(ocs[t], xs[t], threes[t], selfCheck), selfCheck);
                }
                c.require(prop + ".concurrent_unrelated_optimizers_same_result_as_alone", allEqual, okey(ocs[0], "threads"));
                c.require(prop + ".concurrent_unrelated_optimizers_repeatable", allStable, okey(ocs[0], "threads"));
                c.event("thread_rounds");
                c.event("concurrent_optimizer_computations", (uint64_t)T * reps);
            }
        }
    }
}
} // namespace vf
