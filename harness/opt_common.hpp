// Shared machinery for the optimizer monitors: case generation, the decision-vector layout model (DESIGN 3.7),
// independent decoding, independent recomputation of the cost (C08) and the finite-difference oracle over x (C07).
#pragma once
#include "common/monitor.hpp"
#include "common/iface.hpp"
#include "common/routes.hpp"
#include "common/iface_opt.hpp"
#include "common/oracle.hpp"
#include "common/gen.hpp"
#include "common/costprog.hpp"
#include "spline_monitors.hpp"

namespace vf
{
struct OptCase
{
    int order = 5, dim = 1, combo = 0;
    Problem ref;
    OptFlags flags;
    double rho = 0;
    int K = 4;
    bool userTm = false, userSm = false; // explicit user instances set on the optimizer
    UserTimeMapCfg tmc;
    UserSpatialMapCfg smc;
    CostProgram prog;
    bool initByPoints = false;
    bool exactZeros = false; // data with exact zeros + penalty-style program: judge the gradient AT the initial guess
};

struct OptRig
{
    std::unique_ptr<IOptEnv> env;
    std::unique_ptr<IOptimizer> opt;
    int tmH = -1, smH = -1; // handles of the active user maps (-1 = the optimizer's default map)
};

inline UserTimeMapCfg genTimeMapCfg(Rng &r)
{
    UserTimeMapCfg c;
    c.mode = r.range(0, 2);
    c.scale = r.uni(0.5, 2.0);
    c.shift = c.mode == 2 ? r.uni(0.0, 0.5) : 0.0;
    return c;
}
inline UserSpatialMapCfg genSpatialMapCfg(Rng &r, int dim)
{
    UserSpatialMapCfg c;
    int pat = r.range(0, 3);
    if (pat == 0)
        c.modes = {0};
    else if (pat == 1)
        c.modes = {0, 1}; // odd-indexed points live on a one-parameter curve
    else if (pat == 2)
        c.modes = {2, 0, 1}; // per-index dimension DIM+1, DIM, 1
    else
    {
        c.modes.clear();
        int n = r.range(2, 5);
        for (int i = 0; i < n; ++i)
            c.modes.push_back(r.range(0, 2));
    }
    c.S = r.uni(0.5, 2.0);
    for (int j = 0; j < kMaxDim; ++j)
    {
        c.o[j] = r.normal();
        c.c[j] = r.normal();
        c.a[j] = r.uni(0.5, 2.0);
        c.phi[j] = r.uni(0, 6.28);
        c.w[j] = r.uni(-1, 1);
    }
    (void)dim;
    return c;
}

inline OptRig buildRig(const OptCase &oc)
{
    OptRig rig;
    rig.env = makeOptEnv(oc.order, oc.dim, oc.combo);
    rig.opt = rig.env->makeOptimizer();
    if (oc.userTm)
    {
        rig.tmH = rig.env->newTimeMap(oc.tmc);
        rig.opt->setTimeMap(rig.tmH);
    }
    if (oc.userSm)
    {
        rig.smH = rig.env->newSpatialMap(oc.smc);
        rig.opt->setSpatialMap(rig.smH);
    }
    return rig;
}
inline bool initRig(OptRig &rig, const OptCase &oc)
{
    bool ok = oc.initByPoints ? rig.opt->setInitPts(oc.ref.timePoints(), oc.ref.P, oc.ref.bc) : rig.opt->setInitDur(oc.ref.T, oc.ref.P, oc.ref.t0, oc.ref.bc);
    rig.opt->setFlags(oc.flags);
    rig.opt->setRho(oc.rho);
    rig.opt->setSteps(oc.K);
    return ok;
}

// ---- layout model, written from the property text
struct LayoutEntry
{
    int kind;  // 0 time, 1 spatial point, 2 boundary derivative
    int index; // segment / point index / 0 start 1 end
    int deriv; // derivative order for kind 2
    int offset, size;
};
inline std::vector<LayoutEntry> layoutModel(const OptCase &oc, const IOptEnv &env, int smH, int *total)
{
    std::vector<LayoutEntry> L;
    const int N = oc.ref.N, s = oc.ref.s();
    int off = 0;
    for (int i = 0; i < N; ++i)
        L.push_back({0, i, 0, off++, 1});
    for (int i = 0; i <= N; ++i)
    {
        bool optimised = (i > 0 && i < N) || (i == 0 && oc.flags.f[0]) || (i == N && oc.flags.f[4]);
        if (!optimised)
            continue;
        int dof = env.smDof(smH, i);
        L.push_back({1, i, 0, off, dof});
        off += dof;
    }
    for (int side = 0; side < 2; ++side)
        for (int d = 1; d <= 3; ++d)
            if (oc.flags.f[side * 4 + d] && d <= s - 1)
            {
                L.push_back({2, side, d, off, oc.dim});
                off += oc.dim;
            }
    if (total)
        *total = off;
    return L;
}
inline Problem effectiveRef(const OptCase &oc)
{
    return oc.initByPoints ? effectiveFromPoints(oc.ref) : oc.ref;
}
// independent decoding of a decision vector
inline Problem decodeModel(const OptCase &oc, const IOptEnv &env, int tmH, int smH, const VectorXd &x)
{
    Problem p = effectiveRef(oc);
    int total = 0;
    for (auto &e : layoutModel(oc, env, smH, &total))
    {
        if (e.kind == 0)
            p.T[e.index] = env.tmToTime(tmH, x(e.offset));
        else if (e.kind == 1)
            p.P.row(e.index) = env.smToPhysical(smH, x.segment(e.offset, e.size), e.index).transpose();
        else
        {
            VectorXd v = x.segment(e.offset, e.size);
            if (e.index == 0)
                p.bc.s(e.deriv) = v;
            else
                p.bc.e(e.deriv) = v;
        }
    }
    return p;
}
inline VectorXd initialGuessModel(const OptCase &oc, const IOptEnv &env, int tmH, int smH)
{
    int total = 0;
    auto L = layoutModel(oc, env, smH, &total);
    VectorXd x(total);
    Problem p = effectiveRef(oc);
    for (auto &e : L)
    {
        if (e.kind == 0)
            x(e.offset) = env.tmToTau(tmH, p.T[e.index]);
        else if (e.kind == 1)
            x.segment(e.offset, e.size) = env.smToUnconstrained(smH, p.P.row(e.index).transpose(), e.index);
        else
            x.segment(e.offset, e.size) = (e.index == 0) ? p.bc.s(e.deriv) : p.bc.e(e.deriv);
    }
    return x;
}

// ---- case generation
inline OptCase genOptCase(Rng &r, int order, int dim, int N, int combo, int flagsByte = -1)
{
    OptCase oc;
    oc.order = order;
    oc.dim = dim;
    oc.combo = combo;
    GenOpts go;
    go.data_class = r.coin(0.8) ? 0 : 5;
    go.base_lo = 0.3;
    go.base_hi = 3.0;
    go.ratio_cap = std::min(ratioCap(order), 3.0);
    oc.ref = genProblem(r, order, dim, N, go);
    if (std::fabs(oc.ref.t0) > 1e4)
        oc.ref.t0 = r.uni(-1e3, 1e3); // cost programs depend on global time: keep its rounding below the FD oracle's resolution
    oc.flags = OptFlags::fromByte(flagsByte >= 0 ? flagsByte : r.range(0, 255));
    oc.rho = r.coin(0.4) ? 0.0 : r.logUni(1e-3, 1.0);
    static const int Ks[] = {1, 2, 3, 7, 16, 64};
    oc.K = r.coin(0.3) ? r.range(1, 128) : Ks[r.range(0, 5)];
    oc.initByPoints = r.coin(0.3);
    if (combo == 2)
    {
        oc.userTm = r.coin(0.7);
        oc.userSm = r.coin(0.7);
        oc.tmc = genTimeMapCfg(r);
        oc.smc = genSpatialMapCfg(r, dim);
    }
    else
    {
        // a separately allocated instance of the bundled (stateless) map type may be set as "user" map as well
        oc.userTm = r.coin(0.2);
        oc.userSm = r.coin(0.2);
    }
    if (r.coin(0.25))
    {
        // penalty-style single-term running cost on data with exact zeros (rest-to-rest, waypoints at the origin or on
        // coordinate planes, start time zero): such a cost is exactly zero at some samples while its partials are not
        oc.prog = CostProgram::generate(r, dim, -2);
        if (r.coin(0.8))
        {
            oc.exactZeros = true;
            oc.ref.bc.setZero(dim);
            if (r.coin())
                oc.ref.t0 = 0.0;
            for (int i = 0; i <= N; ++i)
            {
                if (r.coin(0.35))
                    oc.ref.P.row(i).setZero();
                else if (r.coin(0.4))
                    oc.ref.P(i, r.range(0, dim - 1)) = 0.0;
            }
            // the identity spatial map keeps exact zeros exact; boundary derivatives are optimised half of the time
            if (flagsByte < 0 && r.coin())
                oc.flags.f[1] = true;
            if (flagsByte < 0 && r.coin())
                oc.flags.f[5] = true;
        }
    }
    else
        oc.prog = CostProgram::generate(r, dim);
    if (r.coin(0.3))
    {
        // time-window penalty: exactly zero (value and partials) before a deadline inside the trajectory's time span
        double tot = 0;
        for (double t : oc.ref.T)
            tot += t;
        oc.prog.dl_w = r.uni(0.05, 0.5);
        oc.prog.dl_t = oc.ref.t0 + r.uni(0.15, 0.9) * tot;
        oc.prog.usesClass[1] = true;
        oc.prog.usesTime = true;
    }
    if (r.coin(0.3))
    {
        // a moving-obstacle style term that is active only inside a time window which opens and closes inside one segment
        double tot = 0;
        for (double t : oc.ref.T)
            tot += t;
        double a0 = r.uni(0.05, 0.8);
        oc.prog.wn_w = r.uni(0.5, 5.0) / std::pow(0.1 * tot + 1e-3, 6);
        oc.prog.wn_0 = oc.ref.t0 + a0 * tot;
        oc.prog.wn_1 = oc.prog.wn_0 + r.uni(0.03, 0.2) * tot;
        for (int j = 0; j < kMaxDim; ++j)
            oc.prog.wn_c[j] = r.normal();
        oc.prog.usesClass[0] = true;
        oc.prog.usesTime = true;
    }
    oc.prog.conditionalWrites = r.coin(0.5);
    return oc;
}

// a decision vector near the reference (decoded durations stay inside the well-scaled domain)
inline VectorXd genDecisionVector(Rng &r, const OptCase &oc, const OptRig &rig, double spread = 1.0)
{
    int total = 0;
    auto L = layoutModel(oc, *rig.env, rig.smH, &total);
    VectorXd x(total);
    Problem p = effectiveRef(oc);
    for (auto &e : L)
    {
        if (e.kind == 0)
        {
            double T = p.T[e.index] * std::exp(0.15 * spread * r.normal());
            T = std::min(std::max(T, 0.1), 10.0);
            x(e.offset) = rig.env->tmToTau(rig.tmH, T);
        }
        else if (e.kind == 1)
        {
            VectorXd xi = rig.env->smToUnconstrained(rig.smH, p.P.row(e.index).transpose(), e.index);
            for (int q = 0; q < xi.size(); ++q)
                xi(q) += 0.4 * spread * r.normal();
            x.segment(e.offset, e.size) = xi;
        }
        else
        {
            VectorXd v = (e.index == 0) ? p.bc.s(e.deriv) : p.bc.e(e.deriv);
            for (int q = 0; q < v.size(); ++q)
                v(q) += 0.4 * spread * r.normal();
            x.segment(e.offset, e.size) = v;
        }
    }
    return x;
}

// The optimizer that is judged may itself be a copy: copy-constructed from the configured one, or another (possibly
// already used) optimizer that was assigned from it.  Returns the name of the route.
// An evaluation aborted by an exception from the user's running cost (thrown in a segment after the first, after that
// segment's first sample), on the same optimizer and workspace as the judged call that follows.
inline bool abortedEvaluation(Ctx &c, Rng &r, IOptimizer &opt, const OptCase &oc, const EvalOpts &eo, const VectorXd &x)
{
    if (oc.ref.N < 2)
        return false;
    CostProgram pr = oc.prog;
    pr.rec = nullptr;
    pr.bar_r2 = 0;
    pr.throw_at_seg = r.range(1, oc.ref.N - 1);
    EvalOpts e2 = eo;
    e2.executor = r.range(0, 1); // serial executors only: an exception on a worker thread would terminate the process
    e2.perm.clear();
    const bool thrown = opt.evaluateThrows(x, pr, e2);
    c.event(thrown ? "history.evaluation_aborted_by_callback_exception" : "history.callback_exception_not_reached");
    return thrown;
}

inline const char *routeViaCopy(Rng &r, OptRig &rig)
{
    int k = r.range(0, 11);
    if (k < 6)
        return "direct";
    if (k < 8)
    {
        rig.opt = rig.opt->clone();
        return "copy_constructed";
    }
    if (k == 10)
    {
        rig.opt = rig.opt->cloneByMove();
        return "constructed_from_rvalue";
    }
    auto other = rig.env->makeOptimizer();
    if (k == 11)
    {
        other->assignFromMoved(*rig.opt);
        rig.opt = std::move(other);
        return "assigned_from_rvalue";
    }
    if (k == 9)
    {
        // the target has a life of its own before it is assigned to
        other->setSteps(r.range(1, 30));
        other->setRho(r.uni(0, 1));
        (void)other->getDimension();
    }
    other->assignFrom(*rig.opt);
    rig.opt = std::move(other);
    return "assigned";
}

inline std::string dumpOptCase(const OptCase &oc, const VectorXd *x = nullptr)
{
    JObj o;
    o.i("order", oc.order).i("dim", oc.dim).i("combo", oc.combo).i("flags", oc.flags.toByte()).num("rho", oc.rho).i("K", oc.K);
    o.b("init_by_points", oc.initByPoints).b("user_time_map", oc.userTm).b("user_spatial_map", oc.userSm);
    if (oc.combo == 2)
    {
        o.i("time_map_mode", oc.tmc.mode);
        o.raw("spatial_map_modes", jveci(oc.smc.modes));
    }
    o.str("program", oc.prog.describe());
    o.raw("reference", dumpProblem(oc.ref));
    if (x)
        o.raw("x", jvec(*x, true));
    return o.done();
}
inline uint64_t hashOptCase(const OptCase &oc, const VectorXd *x = nullptr)
{
    uint64_t h = mix64(hashProblem(oc.ref), oc.flags.toByte() * 7919 + oc.combo * 31 + oc.K);
    h = mix64(h, hashStr(oc.prog.describe().c_str()));
    h = hashDoubles(&oc.rho, 1, h);
    if (x)
        h = hashDoubles(x->data(), x->size(), h);
    return h;
}
inline std::string okey(const OptCase &oc, const char *eq, const std::string &group = "")
{
    JObj o;
    o.i("order", oc.order).i("dim", oc.dim).i("segments", oc.ref.N).i("combo", oc.combo).i("flags", oc.flags.toByte()).i("K", oc.K).str("equation", eq);
    if (!group.empty())
        o.str("group", group);
    return o.done();
}

// ---- independent recomputation of the cost from the decoded inputs (C08) -- also the rounding scale for C07
struct CostBreakdown
{
    LD total = 0, abssum = 0;
    LD timeCost = 0, wpCost = 0, integral = 0, energy = 0;
};
inline CostBreakdown recomputeCost(const OptCase &oc, const Problem &dec, bool threeCosts)
{
    CostBreakdown b;
    b.timeCost = oc.prog.timeValueLD(dec.T);
    b.wpCost = threeCosts ? oc.prog.wpValueLD(dec.P) : 0;
    auto s = makeSplineDur(dec);
    MatrixXd C = s->coeffs();
    const int nc = dec.ncoef();
    LD tstart = dec.t0;
    for (int i = 0; i < dec.N; ++i)
    {
        LD T = dec.T[i];
        for (int k = 0; k <= oc.K; ++k)
        {
            LD t = T * k / oc.K;
            LD st[5][kMaxDim], sa[5][kMaxDim];
            for (int d = 0; d < 5; ++d)
                for (int j = 0; j < dec.dim; ++j)
                {
                    PolyVal pv = polyDerivD(&C(i * nc, j), colStride(C), nc, t, d);
                    st[d][j] = pv.value;
                    sa[d][j] = pv.abssum;
                }
            LD c = oc.prog.runValueLD(tstart + t, i, st[0], st[1], st[2], st[3], st[4]);
            LD w = (k == 0 || k == oc.K) ? 0.5L : 1.0L;
            b.integral += w * (T / oc.K) * c;
            b.abssum += fabsl(w * (T / oc.K) * c);
            {
                // a state that vanishes by construction (an end at rest) is evaluated by the library as a cancelling sum in
                // double: its rounding (a few ulps of the sum of |terms|) enters the cost through the cost's sensitivity to
                // that state, even where the cost term itself is (nearly) zero
                double xs[5][kMaxDim], gs[5][kMaxDim] = {};
                for (int d = 0; d < 5; ++d)
                    for (int j = 0; j < dec.dim; ++j)
                        xs[d][j] = (double)st[d][j];
                double gt = 0;
                CostProgram pr = oc.prog;
                pr.rec = nullptr;
                pr.pert = PERT_NONE;
                pr.throw_at_seg = -1;
                pr.throw_at_call = -1;
                pr.bar_r2 = 0;
                pr.conditionalWrites = false;
                (void)pr.runCost((double)t, (double)(tstart + t), i, xs[0], xs[1], xs[2], xs[3], xs[4], gs[0], gs[1], gs[2], gs[3], gs[4], gt);
                LD sens = 0;
                for (int d = 0; d < 5; ++d)
                    for (int j = 0; j < dec.dim; ++j)
                        sens += fabsl((LD)gs[d][j]) * sa[d][j];
                b.abssum += 1e-7L * w * (T / oc.K) * sens;
            }
        }
        tstart += T;
    }
    if (oc.rho > 0)
    {
        LD E = 0, Ea = 0;
        for (int j = 0; j < dec.dim; ++j)
            for (int i = 0; i < dec.N; ++i)
            {
                PolyVal ev = energyExact(&C(i * nc, j), colStride(C), nc, dec.s(), dec.T[i]);
                E += ev.value;
                Ea += ev.abssum;
            }
        b.energy = (LD)oc.rho * E;
        b.abssum += (LD)oc.rho * Ea;
    }
    b.total = b.timeCost + b.wpCost + b.integral + b.energy;
    b.abssum += fabsl(b.timeCost) + fabsl(b.wpCost);
    return b;
}

// group name of a decision-vector component
inline std::string xGroup(const LayoutEntry &e)
{
    if (e.kind == 0)
        return "time";
    if (e.kind == 1)
        return "spatial";
    static const char *dn[] = {"", "v", "a", "j"};
    return std::string(e.index == 0 ? "start_" : "end_") + dn[e.deriv];
}
} // namespace vf
