// Monitors over PPolyND (through vf::IPPoly): C03 C11 C16 (PPolyND part) C20.
#define VF_MAIN_TU 1
#include "common/monitor.hpp"
#include "common/iface.hpp"
#include "common/routes.hpp"
#include "common/oracle.hpp"
#include "common/gen.hpp"
#include "spline_monitors.hpp"
#include <climits>
#include <thread>
#include <atomic>

using namespace vf;

namespace
{
struct Model
{
    std::vector<double> bp;
    MatrixXd C;
    int nc = 0;
    int dim = 1;
    bool init = false;
    int nseg() const { return init ? (int)bp.size() - 1 : 0; }
};

// piece lookup by definition: half-open intervals, clamped outside
int modelPiece(const Model &m, double t)
{
    const int n = m.nseg();
    if (t < m.bp[0])
        return 0;
    for (int i = 0; i < n; ++i)
        if (t >= m.bp[i] && t < m.bp[i + 1])
            return i;
    return n - 1;
}
// k-th derivative of piece i at global time t in extended precision, with rounding scale
void modelEval(const Model &m, int i, double t, int k, std::vector<LD> &val, std::vector<LD> &abs)
{
    val.assign(m.dim, 0);
    abs.assign(m.dim, 0);
    LD dt = (LD)t - (LD)m.bp[i];
    for (int j = 0; j < m.dim; ++j)
    {
        PolyVal pv = polyDerivD(&m.C(i * m.nc, j), 1, m.nc, dt, k);
        val[j] = pv.value;
        abs[j] = pv.abssum;
    }
}
void modelEvalLocal(const Model &m, int i, double tl, int k, std::vector<LD> &val, std::vector<LD> &abs)
{
    val.assign(m.dim, 0);
    abs.assign(m.dim, 0);
    for (int j = 0; j < m.dim; ++j)
    {
        PolyVal pv = polyDerivD(&m.C(i * m.nc, j), 1, m.nc, (LD)tl, k);
        val[j] = pv.value;
        abs[j] = pv.abssum;
    }
}
double evalErr(const VectorXd &got, const std::vector<LD> &val, const std::vector<LD> &abs)
{
    double w = 0;
    for (int j = 0; j < (int)val.size(); ++j)
    {
        LD d = fabsl((LD)got(j) - val[j]);
        // results that underflow are rounded to a multiple of the smallest subnormal: allow for it
        d = d > 16 * 4.9406564584124654e-324L ? d - 16 * 4.9406564584124654e-324L : 0;
        double r;
        if (std::isnan(got(j)))
            r = INFINITY;
        else if (d == 0)
            r = 0;
        else if (abs[j] > 0)
            r = (double)(d / abs[j]);
        else
            r = INFINITY;
        w = std::max(w, r);
    }
    return w;
}
const double kEvalTol = 64 * 2.220446049250313e-16;

bool sameVec(const VectorXd &a, const VectorXd &b)
{
    if (a.size() != b.size())
        return false;
    for (int i = 0; i < a.size(); ++i)
        if (!bitEqualOrBothNaN(a(i), b(i)))
            return false;
    return true;
}

std::vector<double> genBreakpoints(Rng &r, int nseg)
{
    std::vector<double> bp(nseg + 1);
    static const double starts[] = {0.0, -1.0, 1.0, 1e3, -1e3, 1e6, -1e6, 0.5};
    bp[0] = r.coin(0.6) ? starts[r.range(0, 7)] : r.uni(-100, 100);
    int gapmode = r.range(0, 6);
    if (gapmode >= 5)
    {
        // uniform grid with a step that is not a binary fraction, accumulated or as i*h
        double h = r.pick(std::vector<double>{0.1, 0.3, 1.0 / 3.0, 0.7, 0.01, 1e-3});
        if (gapmode == 5)
            for (int i = 0; i < nseg; ++i)
                bp[i + 1] = bp[i] + h;
        else
        {
            double b0 = bp[0];
            for (int i = 0; i <= nseg; ++i)
                bp[i] = b0 + i * h;
        }
        for (int i = 0; i < nseg; ++i)
            if (!(bp[i + 1] > bp[i]))
                bp[i + 1] = std::nextafter(bp[i], INFINITY);
        return bp;
    }
    for (int i = 0; i < nseg; ++i)
    {
        double g;
        switch (gapmode)
        {
        case 0:
            g = r.uni(0.05, 3.0);
            break;
        case 1:
            g = r.logUni(1e-3, 1e3);
            break;
        case 2:
            g = 1.0;
            break;
        case 3:
            g = r.coin(0.2) ? r.logUni(1e-7, 1e-4) : r.uni(0.5, 2.0); // tiny gaps among normal ones
            break;
        default:
            g = r.coin(0.1) ? r.uni(1e3, 1e5) : r.uni(0.1, 1.0);
            break;
        }
        double nx = bp[i] + g;
        if (!(nx > bp[i]))
            nx = std::nextafter(bp[i], INFINITY);
        bp[i + 1] = nx;
    }
    return bp;
}
MatrixXd genCoeffs(Rng &r, int rows, int dim)
{
    MatrixXd C(rows, dim);
    int mode = r.range(0, 3);
    for (int i = 0; i < rows; ++i)
        for (int j = 0; j < dim; ++j)
        {
            double v = r.normal();
            if (mode == 1)
                v *= std::pow(10.0, r.range(-3, 3));
            if (mode == 2 && r.coin(0.5))
                v = 0;
            if (mode == 3)
                v = std::round(4 * v) / 4;
            C(i, j) = v;
        }
    return C;
}
Model genModel(Rng &r, int dim, int fixedOrder, int nsegForce = -1, int ncForce = -1)
{
    Model m;
    m.dim = dim;
    static const int segs[] = {1, 2, 3, 31, 32, 33, 100};
    int nseg = nsegForce > 0 ? nsegForce : (r.coin(0.5) ? segs[r.range(0, 6)] : r.range(1, 40));
    int ncmax = fixedOrder > 0 ? fixedOrder : 12;
    m.nc = ncForce > 0 ? ncForce : r.range(1, ncmax);
    m.bp = genBreakpoints(r, nseg);
    m.C = genCoeffs(r, nseg * m.nc, dim);
    m.init = true;
    return m;
}
std::string dumpModel(const Model &m, bool full = true)
{
    JObj o;
    o.i("dim", m.dim).i("num_coeffs", m.nc).i("segments", m.nseg()).raw("breakpoints", jvec(m.bp, true));
    if (full && m.C.size() <= 600)
        o.raw("coefficients", jmat(m.C, true));
    return o.done();
}
uint64_t hashModel(const Model &m)
{
    uint64_t h = mix64(m.dim * 100 + m.nc, m.bp.size());
    h = hashDoubles(m.bp.data(), m.bp.size(), h);
    return hashDoubles(m.C.data(), m.C.size(), h);
}
std::string pkey(int dim, int fo, int nc, int nseg, const char *eq)
{
    return JObj().i("dim", dim).i("fixed_order", fo).i("num_coeffs", nc).i("segments", nseg).str("equation", eq).done();
}

std::vector<double> probeTimes(Rng &r, const Model &m, int extra)
{
    std::vector<double> ts;
    const int n = m.nseg();
    std::vector<int> ks;
    if (n <= 8)
        for (int i = 0; i <= n; ++i)
            ks.push_back(i);
    else
    {
        ks = {0, 1, n - 1, n, 31 <= n ? 31 : n / 2, 32 <= n ? 32 : n / 3};
        for (int q = 0; q < 4; ++q)
            ks.push_back(r.range(0, n));
    }
    for (int i : ks)
    {
        double b = m.bp[i];
        ts.push_back(b);
        ts.push_back(std::nextafter(b, INFINITY));
        ts.push_back(std::nextafter(b, -INFINITY));
        // a little off the breakpoint (nanoseconds to microseconds): neither "exactly on it" nor "well inside"
        double off = std::pow(10.0, -(double)r.range(6, 13)) * (r.coin() ? 1 : -1);
        ts.push_back(b + off);
        ts.push_back(b - 0.37 * off);
    }
    for (int q = 0; q < extra; ++q)
    {
        int i = r.range(0, n - 1);
        ts.push_back(r.uni(m.bp[i], m.bp[i + 1]));
    }
    double span = m.bp.back() - m.bp.front();
    ts.push_back(m.bp.front() - r.uni(0.1, 10) * (span + 1));
    ts.push_back(m.bp.back() + r.uni(0.1, 10) * (span + 1));
    ts.push_back(m.bp.front() - 1e3 * (span + 1));
    ts.push_back(m.bp.back() + 1e3 * (span + 1));
    return ts;
}

// All routes at (t,k) against the plain route and the model.
void checkRoutes(Ctx &c, const IPPoly &pp, const Model &m, double t, int k, int *hint, const std::string &key, bool compareModel)
{
    const int i = modelPiece(m, t);
    VectorXd plain = pp.eval(t, k);
    if (k >= m.nc)
    {
        c.require("C03.zero_above_degree", plain.cwiseAbs().maxCoeff() == 0 && pp.segEval(i, t - m.bp[i], k).cwiseAbs().maxCoeff() == 0, key);
        int h0 = *hint;
        VectorXd hv = pp.evalHint(t, hint, k);
        c.require("C03.zero_above_degree_hinted", hv.cwiseAbs().maxCoeff() == 0, key);
        (void)h0;
        return;
    }
    if (compareModel)
    {
        std::vector<LD> val, abs;
        modelEval(m, i, t, k, val, abs);
        c.check("C03.value_vs_model", evalErr(plain, val, abs), kEvalTol, key, "t=" + jhex(t) + " k=" + std::to_string(k) + " piece=" + std::to_string(i));
    }
    // hinted
    int hin = *hint;
    VectorXd hv = pp.evalHint(t, hint, k);
    c.require("C03.route_hinted_identical", sameVec(hv, plain), key, "t=" + jhex(t) + " k=" + std::to_string(k) + " hint_in=" + std::to_string(hin));
    c.require("C03.hint_postcondition", *hint == i, key, "t=" + jhex(t) + " hint_in=" + std::to_string(hin) + " hint_out=" + std::to_string(*hint) + " piece=" + std::to_string(i));
    // no hint supplied (null pointer) is the plain lookup
    c.require("C03.route_null_hint_identical", sameVec(pp.evalHint(t, nullptr, k), plain) && (k > 6 || sameVec(pp.evalHintEnum(t, nullptr, k), plain)), key);
    if (k <= 6)
    {
        c.require("C03.route_enum_identical", sameVec(pp.evalEnum(t, k), plain), key);
        int h2 = hin;
        c.require("C03.route_hinted_enum_identical", sameVec(pp.evalHintEnum(t, &h2, k), plain) && h2 == i, key);
    }
    if (k == 0)
    {
        int h3 = hin;
        c.require("C03.route_default_args_identical", sameVec(pp.evalEnum(t, -1), plain) && sameVec(pp.evalHintEnum(t, &h3, -1), plain), key);
    }
    // per-segment local-time evaluation reached by indexing / at() / iteration
    const double tl = t - m.bp[i];
    bool seg = sameVec(pp.segEval(i, tl, k), plain) && sameVec(pp.segAtEval(i, tl, k), plain);
    for (int mode = 0; mode < 4; ++mode)
        seg = seg && sameVec(pp.iterEval(i, tl, k, mode), plain);
    if (k <= 6)
        seg = seg && sameVec(pp.segEvalEnum(i, tl, k), plain);
    c.require("C03.route_segment_identical", seg, key, "t=" + jhex(t) + " k=" + std::to_string(k));
}

// ------------------------------------------------------------------ C03
void runC03(Ctx &c)
{
    const bool thorough = c.a.tier == "thorough";
    const uint64_t per = c.count(thorough ? 1500 : 150);
    for (auto cellp : ppolyCells())
    {
        const int dim = cellp.first, fo = cellp.second;
        if (!selected(c.a.dims, dim))
            continue;
        std::string cell = "d" + std::to_string(dim) + "ord" + std::to_string(fo);
        if (!c.cellSelected(cell))
            continue;
        for (uint64_t idx = 0; idx < per; ++idx)
        {
            if (!c.mine(idx))
                continue;
            Rng r = c.beginCase(cell, idx);
            static const int segs[] = {1, 2, 3, 31, 32, 33, 100};
            Model m = genModel(r, dim, fo, (idx % 3 == 0) ? segs[(idx / 3) % 7] : -1, (idx % 5 == 0) ? (int)(1 + (idx / 5) % (fo > 0 ? fo : 12)) : -1);
            c.dump = [&]() { return dumpModel(m); };
            c.nontrivial(hashModel(m));
            if (idx < 1)
                c.wantSample();
            auto proto = makePPoly(dim, fo);
            std::unique_ptr<IPPoly> pp;
            if (r.coin())
                pp = proto->makeCtor(m.bp, m.C, m.nc);
            else
            {
                pp = proto->makeEmpty();
                if (r.coin())
                {
                    Model old = genModel(r, dim, fo);
                    pp->update(old.bp, old.C, old.nc);
                }
                pp->update(m.bp, m.C, m.nc);
            }
            std::string key = pkey(dim, fo, m.nc, m.nseg(), "evaluation");
            if (!c.require("C03.initialized", pp->isInitialized() && pp->numSegments() == m.nseg() && pp->numCoeffs() == m.nc && pp->degree() == m.nc - 1, key))
                continue;
            c.event(std::string("segments.") + (m.nseg() < 32 ? "linear_search" : "binary_search"));
            c.event(std::string("coeffs.") + (m.nc <= 8 ? "static_table" : "dynamic_table"));
            // accessors
            {
                bool ok = bitEqualVec(pp->breakpoints(), m.bp) && bitEqualMat(pp->coefficients(), m.C) && bitEqual(pp->startTime(), m.bp.front()) &&
                          bitEqual(pp->endTime(), m.bp.back()) && bitEqual(pp->duration(), m.bp.back() - m.bp.front());
                auto it = pp->iterate(false), itr = pp->iterate(true);
                ok = ok && (int)it.size() == m.nseg() && (int)itr.size() == m.nseg();
                for (int i = 0; i < m.nseg() && ok; ++i)
                {
                    SegView a = pp->segIndex(i), b;
                    bool at = pp->segAt(i, &b);
                    const SegView &e = it[i], &f = itr[m.nseg() - 1 - i];
                    for (const SegView *v : std::vector<const SegView *>{&a, &b, &e, &f})
                        ok = ok && at && bitEqual(v->start, m.bp[i]) && bitEqual(v->end, m.bp[i + 1]) && bitEqual(v->duration, m.bp[i + 1] - m.bp[i]) && v->index == i &&
                             bitEqualMat(v->coeffs, m.C.block(i * m.nc, 0, m.nc, dim));
                }
                c.require("C03.segment_accessors", ok, key);
            }
            std::vector<double> ts = probeTimes(r, m, thorough ? 12 : 6);
            // hint sequences
            static const int hostile[] = {INT_MIN, INT_MAX, -1, 0, 1};
            int hint = r.coin(0.3) ? hostile[r.range(0, 4)] : r.range(-2, m.nseg() + 1);
            for (double t : ts)
            {
                for (int k = 0; k <= m.nc + 2; ++k)
                {
                    if (r.coin(0.35))
                    {
                        int hm = r.range(0, 5);
                        hint = hm == 0 ? INT_MIN : hm == 1 ? INT_MAX : hm == 2 ? -1 : hm == 3 ? m.nseg() : hm == 4 ? m.nseg() + 1 : r.range(0, m.nseg() - 1);
                    }
                    checkRoutes(c, *pp, m, t, k, &hint, key, true);
                }
            }
            // monotone sweep with a persistent hint (the fast path), forwards then backwards
            {
                int h = r.range(-1, 1);
                double span = m.bp.back() - m.bp.front();
                int steps = thorough ? 120 : 50;
                for (int q = 0; q <= steps; ++q)
                {
                    double t = m.bp.front() - 0.05 * span + (1.1 * span) * q / steps;
                    checkRoutes(c, *pp, m, t, (int)(q % (m.nc + 1)), &h, key, true);
                }
                for (int q = steps; q >= 0; q -= 3)
                {
                    double t = m.bp.front() + span * q / steps;
                    checkRoutes(c, *pp, m, t, 0, &h, key, false);
                }
                c.event("hint_sweeps");
            }
            // batch evaluation = pointwise
            {
                for (int k : {0, 1, m.nc - 1, m.nc})
                {
                    if (k < 0)
                        continue;
                    MatrixXd B = pp->evalBatch(ts, k);
                    bool ok = B.rows() == (int)ts.size();
                    for (size_t q = 0; q < ts.size() && ok; ++q)
                        ok = sameVec(B.row(q).transpose(), pp->eval(ts[q], k));
                    if (k <= 6)
                    {
                        MatrixXd B2 = pp->evalBatchEnum(ts, k);
                        ok = ok && bitEqualMat(B2, B);
                    }
                    if (k == 0)
                        ok = ok && bitEqualMat(pp->evalBatchEnum(ts, -1), B);
                    c.require("C03.route_batch_identical", ok, key);
                }
                c.require("C03.batch_empty", pp->evalBatch(std::vector<double>(), 0).rows() == 0, key);
            }
            // derivative trajectory
            for (int k = 0; k <= m.nc + 1; ++k)
            {
                auto d = (k == 1 && r.coin()) ? pp->derivative(-1) : pp->derivative(k);
                bool ok = d->isInitialized() && d->numSegments() == m.nseg() && bitEqualVec(d->breakpoints(), m.bp);
                if (k < m.nc)
                    ok = ok && d->numCoeffs() == m.nc - k;
                if (!c.require("C03.derivative_trajectory_shape", ok, key, "k=" + std::to_string(k)))
                    continue;
                double w = 0;
                for (size_t q = 0; q < ts.size(); q += 2)
                {
                    VectorXd a = d->eval(ts[q], 0), b = pp->eval(ts[q], k);
                    if (!sameVec(a, b))
                        w = 1;
                    // higher orders of the derivative trajectory agree with the model within rounding
                    if (k < m.nc)
                        for (int j2 = 1; j2 <= 2; ++j2)
                        {
                            std::vector<LD> val, abs;
                            modelEval(m, modelPiece(m, ts[q]), ts[q], k + j2, val, abs);
                            c.check("C03.derivative_trajectory_higher_orders", evalErr(d->eval(ts[q], j2), val, abs), kEvalTol, key);
                        }
                }
                c.require("C03.route_derivative_trajectory_identical", w == 0, key, "k=" + std::to_string(k));
            }
            // stale hints after an update to fewer segments
            if (m.nseg() > 1)
            {
                int stale = m.nseg() - 1;
                Model m2 = genModel(r, dim, fo, r.range(1, std::max(1, m.nseg() / 2)));
                pp->update(m2.bp, m2.C, m2.nc);
                std::string key2 = pkey(dim, fo, m2.nc, m2.nseg(), "stale_hint");
                for (double t : probeTimes(r, m2, 3))
                {
                    int h = stale;
                    checkRoutes(c, *pp, m2, t, r.range(0, m2.nc - 1), &h, key2, true);
                }
                c.event("stale_hint_checks");
            }
            // extreme times: piece selection and route agreement only
            {
                Model mm = m;
                auto p2 = proto->makeCtor(m.bp, m.C, m.nc);
                for (double t : {1e300, -1e300, 1.7e308, -1.7e308})
                {
                    int h = r.range(0, m.nseg() - 1);
                    VectorXd a = p2->eval(t, 0), b = p2->evalHint(t, &h, 0);
                    c.require("C03.extreme_time_routes", sameVec(a, b) && h == (t > 0 ? m.nseg() - 1 : 0), key);
                }
            }
        }
    }
}

// ------------------------------------------------------------------ C11
struct Live
{
    std::unique_ptr<IPPoly> pp;
    Model m;
};
void checkLive(Ctx &c, Live &L, Rng &r, const IPPoly &proto, const std::string &what)
{
    std::string key = pkey(L.m.dim, proto.fixedOrder(), L.m.nc, L.m.nseg(), "stale_cache");
    if (!L.m.init)
    {
        c.require("C11.uninitialised_stays_uninitialised", !L.pp->isInitialized() && L.pp->numSegments() == 0, key, what);
        return;
    }
    if (!c.require("C11.shape_tracks_latest", L.pp->isInitialized() && L.pp->numSegments() == L.m.nseg() && L.pp->numCoeffs() == L.m.nc &&
                                                   bitEqualVec(L.pp->breakpoints(), L.m.bp) && bitEqualMat(L.pp->coefficients(), L.m.C),
                   key, what))
        return;
    auto fresh = proto.makeCtor(L.m.bp, L.m.C, L.m.nc);
    std::vector<double> ts;
    for (int q = 0; q < 4; ++q)
        ts.push_back(r.uni(L.m.bp.front() - 0.5, L.m.bp.back() + 0.5));
    ts.push_back(L.m.bp[r.range(0, L.m.nseg())]);
    bool same = true;
    double werr = 0;
    for (double t : ts)
        for (int k = 0; k <= L.m.nc; ++k)
        {
            VectorXd a = L.pp->eval(t, k), b = fresh->eval(t, k);
            same = same && sameVec(a, b);
            if (k < L.m.nc)
            {
                std::vector<LD> val, abs;
                modelEval(L.m, modelPiece(L.m, t), t, k, val, abs);
                werr = std::max(werr, evalErr(a, val, abs));
            }
            else
                same = same && a.cwiseAbs().maxCoeff() == 0;
        }
    c.require("C11.equals_fresh_object_bitwise", same, key, what);
    c.check("C11.value_vs_model", werr, kEvalTol, key, what);
    c.event("live_object_checks");
}

void runC11(Ctx &c)
{
    const bool thorough = c.a.tier == "thorough";
    const uint64_t per = c.count(thorough ? 400 : 40);
    for (auto cellp : ppolyCells())
    {
        const int dim = cellp.first, fo = cellp.second;
        if (!selected(c.a.dims, dim))
            continue;
        std::string cell = "d" + std::to_string(dim) + "ord" + std::to_string(fo);
        if (!c.cellSelected(cell))
            continue;
        for (uint64_t idx = 0; idx < per; ++idx)
        {
            if (!c.mine(idx))
                continue;
            Rng r = c.beginCase(cell, idx);
            auto proto = makePPoly(dim, fo);
            std::vector<Live> live;
            std::vector<std::string> trace;
            c.dump = [&]()
            {
                std::string s = "[";
                for (size_t i = 0; i < trace.size(); ++i)
                    s += (i ? "," : "") + jstr(trace[i]);
                return JObj().raw("history", s + "]").done();
            };
            uint64_t hh = 0;
            {
                Live L;
                L.m = genModel(r, dim, fo, r.range(1, 12));
                L.pp = proto->makeCtor(L.m.bp, L.m.C, L.m.nc);
                live.push_back(std::move(L));
                trace.push_back("construct");
            }
            const int len = r.range(6, thorough ? 60 : 30);
            for (int step = 0; step < len && !c.case_failed; ++step)
            {
                int op = r.range(0, 11);
                int a = r.range(0, (int)live.size() - 1);
                Live &A = live[a];
                switch (op)
                {
                case 11: // update() fed with the object's own getters (keep the knots / keep the coefficients / refresh)
                    if (A.m.init)
                    {
                        int which = r.range(0, 2);
                        if (which == 0)
                            A.m.C = genCoeffs(r, A.m.nseg() * A.m.nc, dim);
                        else if (which == 1)
                            A.m.bp = genBreakpoints(r, A.m.nseg());
                        A.pp->updateAliased(which, A.m.bp, A.m.C, A.m.nc);
                        trace.push_back(std::string("update_with_own_") + (which == 0 ? "breakpoints" : which == 1 ? "coefficients" : "breakpoints_and_coefficients") + " obj" + std::to_string(a));
                        c.event("op.update_with_own_getters");
                    }
                    else
                        trace.push_back("noop");
                    break;
                case 0: // evaluate at some orders first (populates the lazy caches)
                case 1:
                    if (A.m.init)
                    {
                        int k = r.range(0, A.m.nc);
                        // the evaluation that rebuilds the lazy state need not be an ordinary interior one: outside the span,
                        // through a segment handle, or with a hint that is already right, no search takes place
                        const int route = r.range(0, 5);
                        const double ti = r.uni(A.m.bp.front(), A.m.bp.back());
                        if (route == 0)
                            (void)A.pp->eval(r.coin() ? A.m.bp.front() - r.uni(0, 2) : A.m.bp.back() + r.uni(0, 2), k);
                        else if (route == 1)
                            (void)A.pp->segEval(r.range(0, A.m.nseg() - 1), r.uni(0, 0.5), k);
                        else if (route == 2)
                        {
                            int h = modelPiece(A.m, ti);
                            (void)A.pp->evalHint(ti, &h, k);
                        }
                        else
                            (void)A.pp->eval(ti, k);
                        trace.push_back("evaluate obj" + std::to_string(a) + " k=" + std::to_string(k) + " route=" + std::to_string(route));
                    }
                    break;
                case 2: // update, same shape
                    if (A.m.init)
                    {
                        if (r.coin(0.4))
                        {
                            // almost the same polynomial again (finite-difference probe, converging optimiser iterate)
                            double eps = std::pow(10.0, -(double)r.range(6, 12));
                            for (int i = 0; i < A.m.C.rows(); ++i)
                                for (int j = 0; j < dim; ++j)
                                    if (r.coin(0.5))
                                        A.m.C(i, j) = A.m.C(i, j) * (1.0 + eps * r.uni(-1, 1)) + (r.coin(0.2) ? eps * 1e-3 : 0.0);
                            A.pp->update(A.m.bp, A.m.C, A.m.nc);
                            trace.push_back("update_tiny_change obj" + std::to_string(a));
                            break;
                        }
                        A.m.C = genCoeffs(r, A.m.nseg() * A.m.nc, dim);
                        if (r.coin())
                            A.m.bp = genBreakpoints(r, A.m.nseg());
                        A.pp->update(A.m.bp, A.m.C, A.m.nc);
                        trace.push_back("update_same_shape obj" + std::to_string(a));
                        break;
                    }
                    /* fallthrough */
                case 3: // update, other segment count
                {
                    int nc = A.m.init ? A.m.nc : r.range(1, fo > 0 ? fo : 12);
                    A.m = genModel(r, dim, fo, r.range(1, 40), nc);
                    A.pp->update(A.m.bp, A.m.C, A.m.nc);
                    trace.push_back("update_segments obj" + std::to_string(a) + " n=" + std::to_string(A.m.nseg()));
                    break;
                }
                case 4: // update, other coefficient count (crossing 8 when the type allows)
                {
                    int ncmax = fo > 0 ? fo : 12;
                    int nc = (A.m.init && A.m.nc <= 8 && ncmax > 8 && r.coin(0.6)) ? r.range(9, ncmax) : r.range(1, ncmax);
                    A.m = genModel(r, dim, fo, A.m.init && r.coin() ? A.m.nseg() : r.range(1, 20), nc);
                    A.pp->update(A.m.bp, A.m.C, A.m.nc);
                    trace.push_back("update_coeff_count obj" + std::to_string(a) + " nc=" + std::to_string(nc));
                    break;
                }
                case 5: // copy-construct
                    if (live.size() < 5)
                    {
                        Live L;
                        L.m = A.m;
                        L.pp = A.pp->clone();
                        trace.push_back("copy obj" + std::to_string(a) + " -> obj" + std::to_string(live.size()));
                        live.push_back(std::move(L));
                    }
                    break;
                case 6: // assign
                    if (live.size() >= 2)
                    {
                        int b = r.range(0, (int)live.size() - 1);
                        if (b != a)
                        {
                            live[b].pp->assignFrom(*A.pp);
                            live[b].m = A.m;
                            trace.push_back("assign obj" + std::to_string(b) + " = obj" + std::to_string(a));
                        }
                        else
                        {
                            A.pp->selfAssign();
                            trace.push_back("self_assign obj" + std::to_string(a));
                        }
                    }
                    else
                    {
                        A.pp->selfAssign();
                        trace.push_back("self_assign obj" + std::to_string(a));
                    }
                    break;
                case 7: // derivative trajectory as a new live object
                    if (A.m.init && live.size() < 5)
                    {
                        int k = r.range(0, A.m.nc - 1);
                        Live L;
                        L.pp = A.pp->derivative(k);
                        L.m.dim = dim;
                        L.m.bp = A.m.bp;
                        L.m.nc = A.m.nc - k;
                        L.m.init = true;
                        L.m.C = L.pp->coefficients(); // model = what the derivative object publishes; validated against the source below
                        // validate the published derivative coefficients against the definition
                        double w = 0;
                        for (int sgi = 0; sgi < A.m.nseg(); ++sgi)
                            for (int q = 0; q < L.m.nc; ++q)
                                for (int j = 0; j < dim; ++j)
                                {
                                    LD ex = ffact(q + k, k) * (LD)A.m.C(sgi * A.m.nc + q + k, j);
                                    LD d = fabsl((LD)L.m.C(sgi * L.m.nc + q, j) - ex);
                                    if (d > 0)
                                        w = std::max(w, (double)(d / fabsl(ex)));
                                }
                        c.check("C11.derivative_coefficients", w, 4 * 2.22e-16, pkey(dim, fo, A.m.nc, A.m.nseg(), "derivative"));
                        trace.push_back("derivative(" + std::to_string(k) + ") obj" + std::to_string(a) + " -> obj" + std::to_string(live.size()));
                        live.push_back(std::move(L));
                    }
                    break;
                case 8: // destroy
                    if (live.size() > 1)
                    {
                        trace.push_back("destroy obj" + std::to_string(a));
                        live.erase(live.begin() + a);
                    }
                    break;
                case 9: // a burst of updates with no evaluation in between (counters that wrap, versions that collide)
                    if (A.m.init && r.coin(0.25))
                    {
                        int burst = r.pick(std::vector<int>{255, 256, 257, 512, 300, 64});
                        for (int q = 0; q < burst; ++q)
                        {
                            A.m.C(r.range(0, (int)A.m.C.rows() - 1), r.range(0, dim - 1)) = r.normal();
                            A.pp->update(A.m.bp, A.m.C, A.m.nc);
                        }
                        trace.push_back("burst_of_" + std::to_string(burst) + "_updates obj" + std::to_string(a));
                        break;
                    }
                    /* fallthrough */
                default: // invalid update makes the object uninitialised; a later valid update revives it
                    if (r.coin(0.4))
                    {
                        A.pp->update(std::vector<double>{1.0}, MatrixXd::Zero(0, dim), 1);
                        A.m.init = false;
                        A.m.bp.clear();
                        trace.push_back("invalid_update obj" + std::to_string(a));
                    }
                    break;
                }
                hh = mix64(hh, hashStr(trace.back().c_str()));
                c.event("ops");
                // after most ops: all derivative orders on all live objects.  Not after every op: an evaluation repopulates the
                // lazy caches, so always checking would hide defects that need "update, then <op> with no evaluation in
                // between"; the objects are visited in random order for the same reason (who rebuilds a cache first matters
                // if caches were ever shared)
                if (r.coin(0.6) || step + 1 == len)
                {
                    std::vector<size_t> ord(live.size());
                    for (size_t q = 0; q < ord.size(); ++q)
                        ord[q] = q;
                    r.shuffle(ord);
                    for (size_t q : ord)
                        checkLive(c, live[q], r, *proto, "after step " + std::to_string(step) + " (" + trace.back() + ") obj" + std::to_string(q));
                }
            }
            c.nontrivial(hh);
            if (idx < 1)
                c.wantSample();
        }
    }
    // spline objects: trajectory evaluated, spline updated, trajectory evaluated again; trajectory copies independent
    for (auto od : splineCells())
    {
        std::string cell = "spline_o" + std::to_string(od.first) + "d" + std::to_string(od.second);
        if (!c.cellSelected(cell) || !selected(c.a.dims, od.second))
            continue;
        for (uint64_t idx = 0; idx < per; ++idx)
        {
            if (!c.mine(idx))
                continue;
            Rng r = c.beginCase(cell, idx);
            std::vector<std::string> trace;
            c.dump = [&]()
            {
                std::string s = "[";
                for (size_t i = 0; i < trace.size(); ++i)
                    s += (i ? "," : "") + jstr(trace[i]);
                return JObj().raw("history", s + "]").done();
            };
            auto S = makeSpline(od.first, od.second);
            std::unique_ptr<IPPoly> copy;
            Model copyModel;
            uint64_t hh = 0;
            const int len = r.range(4, 16);
            Problem prevP;
            bool havePrevP = false;
            for (int step = 0; step < len && !c.case_failed; ++step)
            {
                Problem p = genProblem(r, od.first, od.second, r.range(1, 12));
                if (havePrevP && r.coin(0.4))
                {
                    // partly unchanged inputs: the same durations again (from the same or another start time), or only the
                    // start time moved
                    Problem q = genProblem(r, od.first, od.second, prevP.N);
                    q.T = prevP.T;
                    int k = r.range(0, 3);
                    if (k == 0)
                        q.t0 = prevP.t0;
                    else if (k == 3)
                    {
                        // the same horizon (start, bitwise the same end, segment count) split differently
                        q.t0 = prevP.t0;
                        if (resplitSameHorizon(r, q))
                            c.event("spline_update.same_horizon_other_split");
                    }
                    else if (k == 2)
                    {
                        q.P = prevP.P;
                        q.bc = prevP.bc;
                    }
                    p = q;
                }
                prevP = p;
                havePrevP = true;
                hh = mix64(hh, hashProblem(p));
                const bool viaDur = r.coin();
                if (viaDur)
                    S->updateDur(p.T, p.P, p.t0, p.bc);
                else
                    S->updatePts(p.timePoints(), p.P, p.bc);
                trace.push_back(std::string(viaDur ? "spline.update(durations) N=" : "spline.update(time points) N=") + std::to_string(p.N));
                // the trajectory a freshly constructed spline exposes for the same latest inputs
                auto F = viaDur ? makeSplineDur(p) : makeSplinePts(p);
                std::vector<double> cu = S->cumTimes();
                bool same = S->trajNumSegments() == p.N && S->trajInitialized();
                same = same && bitEqualVec(S->breakpoints(), F->breakpoints()) && bitEqualMat(S->coeffs(), F->coeffs()) && bitEqual(S->startTime(), F->startTime()) && bitEqual(S->endTime(), F->endTime());
                {
                    std::vector<double> cf = F->cumTimes();
                    for (int q = 0; q < 4; ++q)
                    {
                        double t = r.uni(cf.front() - 0.3, cf.back() + 0.3);
                        for (int k = 0; k <= p.ncoef(); ++k)
                            same = same && sameVec(S->trajEval(t, k), F->trajEval(t, k));
                    }
                }
                for (int q = 0; q < 5; ++q)
                {
                    double t = r.uni(cu.front() - 0.3, cu.back() + 0.3);
                    for (int k = 0; k <= p.ncoef(); ++k)
                    {
                        VectorXd a = S->trajEval(t, k);
                        // fresh spline built from the same latest inputs (durations route): same trajectory within rounding of the time spec
                        same = same && sameVec(a, S->ppolyEval(t, k));
                        (void)F;
                    }
                }
                // exact: the trajectory's published data equal the spline's published data
                auto tc = S->trajectoryCopy(r.coin());
                same = same && bitEqualMat(tc->coefficients(), S->coeffs()) && bitEqualVec(tc->breakpoints(), S->cumTimes());
                // and evaluating the exposed trajectory equals evaluating a fresh PPolyND built from those data
                {
                    auto fresh = tc->makeCtor(S->cumTimes(), S->coeffs(), p.ncoef());
                    for (int q = 0; q < 4; ++q)
                    {
                        double t = r.uni(cu.front() - 0.3, cu.back() + 0.3);
                        for (int k = 0; k <= p.ncoef(); ++k)
                            same = same && sameVec(S->trajEval(t, k), fresh->eval(t, k)) && sameVec(tc->eval(t, k), fresh->eval(t, k));
                    }
                }
                c.require("C11.spline_trajectory_reflects_latest_update", same, gkey(p, "stale_trajectory"), "after step " + std::to_string(step));
                // an earlier trajectory copy is unaffected by this update
                if (copy)
                {
                    bool ind = bitEqualMat(copy->coefficients(), copyModel.C) && bitEqualVec(copy->breakpoints(), copyModel.bp);
                    auto fresh = copy->makeCtor(copyModel.bp, copyModel.C, copyModel.nc);
                    for (int q = 0; q < 3; ++q)
                    {
                        double t = r.uni(copyModel.bp.front(), copyModel.bp.back());
                        for (int k = 0; k < copyModel.nc; ++k)
                            ind = ind && sameVec(copy->eval(t, k), fresh->eval(t, k));
                    }
                    c.require("C11.trajectory_copy_independent_of_source", ind, gkey(p, "copy_independence"));
                }
                if (r.coin(0.5))
                {
                    copy = S->trajectoryCopy(r.coin());
                    (void)copy->eval(cu.front(), r.range(0, 2)); // populate the copy's cache
                    copyModel.bp = copy->breakpoints();
                    copyModel.C = copy->coefficients();
                    copyModel.nc = copy->numCoeffs();
                    copyModel.dim = od.second;
                    copyModel.init = true;
                    trace.push_back("trajectory_copy");
                }
                c.event("spline_update_checks");
            }
            c.nontrivial(hh);
        }
    }
}

// ------------------------------------------------------------------ C16 (PPolyND part)
void runC16(Ctx &c)
{
    const bool thorough = c.a.tier == "thorough";
    const uint64_t per = c.count(thorough ? 300 : 40);
    for (auto cellp : ppolyCells())
    {
        const int dim = cellp.first, fo = cellp.second;
        if (!selected(c.a.dims, dim))
            continue;
        std::string cell = "ppoly_d" + std::to_string(dim) + "ord" + std::to_string(fo);
        if (!c.cellSelected(cell))
            continue;
        for (uint64_t idx = 0; idx < per; ++idx)
        {
            if (!c.mine(idx))
                continue;
            Rng r = c.beginCase(cell, idx);
            auto proto = makePPoly(dim, fo);
            std::string desc;
            c.dump = [&]() { return JObj().str("case", desc).done(); };
            // a sequence of valid / invalid (constructions and) updates on one object
            std::unique_ptr<IPPoly> pp;
            const int len = r.range(2, 8);
            uint64_t hh = 0;
            for (int step = 0; step < len; ++step)
            {
                int kind = r.range(0, 5);
                int nseg = r.range(1, 10);
                int nc = r.range(1, fo > 0 ? fo : 12);
                std::vector<double> bp = genBreakpoints(r, nseg);
                int rows = nseg * nc;
                bool expectInit = true;
                std::string what = "valid";
                switch (kind)
                {
                case 1: // fewer than two breakpoints
                    bp.resize(r.range(0, 1));
                    rows = r.coin() ? 0 : nc;
                    expectInit = false;
                    what = "breakpoints<2";
                    break;
                case 2: // row-count mismatch
                {
                    int delta = r.pick(std::vector<int>{-1, 1, nc, -nc, 7});
                    rows = std::max(0, rows + delta);
                    if (rows == nseg * nc)
                        rows += 1;
                    expectInit = false;
                    what = "row_mismatch";
                    break;
                }
                case 3: // more coefficients than the fixed order
                    if (fo > 0)
                    {
                        nc = fo + r.range(1, 3);
                        rows = nseg * nc;
                        expectInit = false;
                        what = "coeffs>fixed_order";
                    }
                    break;
                case 4: // exactly at the fixed order / exactly two breakpoints: valid boundary cases
                    if (fo > 0)
                        nc = fo;
                    nseg = 1;
                    bp = genBreakpoints(r, 1);
                    rows = nc;
                    what = "valid_boundary";
                    break;
                default:
                    break;
                }
                MatrixXd C = genCoeffs(r, rows, dim);
                desc += what + "(" + std::to_string(bp.size()) + "bp," + std::to_string(rows) + "rows,nc=" + std::to_string(nc) + ") ";
                hh = mix64(hh, hashStr(what.c_str()) + rows * 131 + nc);
                if (kind != 2 && r.coin(0.25))
                {
                    // the static factory is a construction route as well (same rejection rules)
                    pp = proto->makeZero(bp, nc);
                    what += "/zero_factory";
                    c.event("ppoly.route.zero_factory");
                }
                else if (!pp || r.coin(0.3))
                    pp = proto->makeCtor(bp, C, nc);
                else
                    pp->update(bp, C, nc);
                std::string key = JObj().i("dim", dim).i("fixed_order", fo).str("equation", "ppoly_validation").str("input", what).done();
                c.event("ppoly." + what);
                if (expectInit)
                {
                    bool ok = pp->isInitialized() && pp->numSegments() == (int)bp.size() - 1 && pp->numCoeffs() == nc;
                    c.require("C16.ppoly_valid_accepted", ok, key, desc);
                    const int n = pp->numSegments();
                    // checked access
                    bool atok = true;
                    for (int i : {INT_MIN, -1, 0, n - 1, n, n + 1, INT_MAX, r.range(0, n - 1), r.range(-5, n + 5)})
                    {
                        SegView v;
                        bool got = pp->segAt(i, &v);
                        bool inside = (i >= 0 && i < n);
                        atok = atok && (got == inside);
                        if (got && inside)
                            atok = atok && v.index == i && bitEqual(v.start, bp[i]);
                    }
                    c.require("C16.ppoly_at_throws_exactly_outside", atok, key, desc);
                }
                else
                {
                    bool ok = !pp->isInitialized() && pp->numSegments() == 0;
                    c.require("C16.ppoly_invalid_rejected", ok, key, desc);
                    bool atok = true;
                    for (int i : {INT_MIN, -1, 0, 1, INT_MAX})
                        atok = atok && !pp->segAt(i, nullptr);
                    c.require("C16.ppoly_at_throws_on_empty", atok, key, desc);
                    // derivative of an uninitialised object is uninitialised
                    c.require("C16.ppoly_derivative_of_rejected_is_empty", !pp->derivative(1)->isInitialized(), key, desc);
                }
            }
            // default-constructed object
            {
                auto e = proto->makeEmpty();
                c.require("C16.ppoly_default_constructed_empty", !e->isInitialized() && e->numSegments() == 0 && !e->segAt(0, nullptr),
                          JObj().i("dim", dim).i("fixed_order", fo).str("equation", "ppoly_validation").str("input", "default").done());
            }
            c.nontrivial(hh);
            if (idx < 1)
                c.wantSample();
        }
    }
}

// ------------------------------------------------------------------ C20
struct SeqCheck
{
    bool ok = true;
    std::string why;
    double overshoot = 0;
};
SeqCheck checkSequence(const std::vector<double> &s, double a, double b, double dt)
{
    SeqCheck r;
    auto bad = [&](const std::string &w)
    {
        if (r.ok)
        {
            r.ok = false;
            r.why = w;
        }
    };
    if (s.empty())
    {
        bad("empty sequence");
        return r;
    }
    if (!bitEqual(s[0], a) && !(s[0] == a))
        bad("first element is not the requested start");
    const double tmax = std::max(std::fabs(a), std::fabs(b));
    const double u = ulpOf(tmax);
    for (size_t i = 1; i < s.size(); ++i)
        if (!(s[i] > s[i - 1]))
        {
            bad("not strictly increasing at " + std::to_string(i));
            break;
        }
    for (size_t i = 0; i < s.size(); ++i)
    {
        r.overshoot = std::max(r.overshoot, s[i] - b);
        if (s[i] - b > 1e-6 + 4 * u)
        {
            bad("sample beyond end by more than 1e-6 at " + std::to_string(i));
            break;
        }
    }
    if (std::fabs(s.back() - b) > 1e-6 + 4 * u)
        bad("last sample not within 1e-6 of end");
    // regular part advances by dt
    const size_t nreg = s.size() - 1; // the last element may be the appended end
    for (size_t i = 0; i < s.size(); ++i)
    {
        LD ex = (LD)a + (LD)i * (LD)dt;
        bool isLast = (i + 1 == s.size());
        double dev = std::fabs((double)((LD)s[i] - ex));
        if (dev > (double)(i + 2) * u)
        {
            if (isLast && i > 0)
            {
                // appended end: allowed iff the previous regular sample fell short of end by more than 1e-6,
                // and the appended value is the end itself
                if (!(s[i] == b))
                    bad("irregular last element is not the requested end");
                if (!(b - s[i - 1] > 1e-6 - 4 * u))
                    bad("end appended although the last regular sample is within 1e-6 of it");
                if (!((double)((LD)b - (LD)s[i - 1]) < dt + (double)(i + 2) * u))
                    bad("gap before the appended end exceeds the step");
            }
            else
                bad("sample " + std::to_string(i) + " is not start + i*step");
        }
    }
    (void)nreg;
    // the end must have been appended when the last regular sample falls short by more than 1e-6: covered by
    // 'last within 1e-6 of end' above.  No regular sample may be skipped:
    if (r.ok)
    {
        LD nextReg = (LD)a + (LD)s.size() * (LD)dt; // what the next regular sample would be if the last is regular
        bool lastRegular = std::fabs((double)((LD)s.back() - ((LD)a + (LD)(s.size() - 1) * (LD)dt))) <= (double)(s.size() + 1) * u;
        if (lastRegular && (double)(nextReg - (LD)b) < -1e-6 - 4 * u && (double)(nextReg - (LD)b) < 0 && (LD)s.back() + (LD)dt <= (LD)b - 1e-6L)
            bad("regular samples stop early");
    }
    return r;
}

void runC20(Ctx &c)
{
    const bool thorough = c.a.tier == "thorough";
    const uint64_t per = c.count(thorough ? 600 : 60);
    // (a) time sequences + batch evaluation + length on PPolyND cells
    for (auto cellp : ppolyCells())
    {
        const int dim = cellp.first, fo = cellp.second;
        if (!selected(c.a.dims, dim))
            continue;
        std::string cell = "d" + std::to_string(dim) + "ord" + std::to_string(fo);
        if (!c.cellSelected(cell))
            continue;
        for (uint64_t idx = 0; idx < per; ++idx)
        {
            if (!c.mine(idx))
                continue;
            Rng r = c.beginCase(cell, idx);
            Model m = genModel(r, dim, fo, r.range(1, 12));
            // moderate breakpoints so that step counts stay bounded
            m.bp[0] = r.coin(0.3) ? r.pick(std::vector<double>{1e6, -1e6, 1e3}) : r.uni(-10, 10);
            for (int i = 0; i < m.nseg(); ++i)
                m.bp[i + 1] = m.bp[i] + r.uni(0.05, 2.0);
            const bool gridAligned = r.coin(0.2);
            if (gridAligned)
            {
                // knots on a dyadic grid and steps that hit them exactly (a sample may coincide bit-exactly with a breakpoint)
                m.bp[0] = 0.25 * r.range(-20, 20);
                for (int i = 0; i < m.nseg(); ++i)
                    m.bp[i + 1] = m.bp[i] + 0.25 * r.range(1, 6);
            }
            auto pp = makePPoly(dim, fo)->makeCtor(m.bp, m.C, m.nc);
            double a, b, dt;
            int icls = r.range(0, 4);
            const double t0 = m.bp.front(), t1 = m.bp.back(), span = t1 - t0;
            if (icls == 0)
                a = t0, b = t1;
            else if (icls == 1)
            {
                a = b = r.uni(t0, t1); // zero length ...
                if (r.coin(0.5))
                    b = a + r.pick(std::vector<double>{5e-7, 1e-6, 2e-7, 1.5e-6, 1e-9}); // ... or shorter than the 1e-6 tolerance
            }
            else
            {
                a = r.uni(t0, t1);
                b = r.uni(a, t1);
            }
            int dcls = r.range(0, 6);
            double len = b - a;
            int k = r.range(1, 400);
            switch (dcls)
            {
            case 0:
                dt = len * r.uni(1.0, 3.0) + 1e-3; // larger than the interval
                break;
            case 1:
                dt = len > 0 ? len : 0.01; // equal
                break;
            case 2:
                dt = r.logUni(1e-4, 1.0) * std::max(span, 1e-3); // generic
                break;
            case 3:
                dt = len > 0 ? len / k : 0.01; // divides (up to rounding)
                break;
            default: // nearly divides: k*dt = len +- delta
            {
                static const double deltas[] = {1e-7, -1e-7, 1e-6, -1e-6, 1.000001e-6, 0.999999e-6, -1.000001e-6, 1e-5, -1e-5};
                double d = deltas[r.range(0, 8)];
                dt = len > 0 ? (len + d) / k : 0.01;
                if (r.coin(0.2) && len > 0)
                    dt = std::nextafter(len / k, r.coin() ? INFINITY : -INFINITY);
                break;
            }
            }
            if (!gridAligned && len > 0 && r.coin(thorough ? 0.03 : 0.015))
            {
                // very long sequences (fine steps): sample counts around and beyond 2^16 and 2^17
                const int kk = r.pick(std::vector<int>{65534, 65535, 65536, 65537, 70001, 131071, 131072, 131073, 150000});
                dt = len / kk * (r.coin() ? 1.0 : (1.0 + 1e-9));
                c.event("sequence.very_long");
            }
            if (!gridAligned && r.coin(0.08))
            {
                // large steps on a long interval that is a hair short of a multiple of the step
                a = t0;
                int k = r.range(1, 4);
                dt = r.uni(5.0, 100.0);
                double shortBy = r.pick(std::vector<double>{2e-6, 1e-5, 5e-6, 2e-5}) * r.uni(0.5, 1.0);
                b = a + k * dt - shortBy;
                icls = 2; // not the whole-range overloads
                c.event("sequence.large_step_hair_short");
            }
            if (gridAligned)
            {
                a = m.bp[r.range(0, m.nseg())];
                b = m.bp[r.range(0, m.nseg())];
                if (b < a)
                    std::swap(a, b);
                if (icls == 0)
                    a = m.bp.front(), b = m.bp.back();
                dt = r.pick(std::vector<double>{0.25, 0.125, 0.5, 0.0625, 0.75});
                c.event("sequence.grid_aligned");
            }
            if (!(dt > 0))
                dt = 0.01;
            if (len / dt > 3e6)
                dt = len / 3e6;
            if (dt < 64 * ulpOf(std::max(std::fabs(a), std::fabs(b))))
                dt = 64 * ulpOf(std::max(std::fabs(a), std::fabs(b))) * r.uni(1, 4);
            if (len / dt > 3e6)
            {
                c.event("skipped.too_many_steps");
                continue;
            }
            c.dump = [&]() { return JObj().raw("start", jhex(a)).raw("end", jhex(b)).raw("dt", jhex(dt)).raw("trajectory", dumpModel(m, false)).done(); };
            c.nontrivial(mix64(hashModel(m), hashDoubles(&a, 1, hashDoubles(&b, 1, hashDoubles(&dt, 1)))));
            if (idx < 1)
                c.wantSample();
            std::string key = JObj().i("dim", dim).i("fixed_order", fo).str("equation", "time_sequence").done();
            std::vector<double> seq = pp->genTimeSeq(a, b, dt);
            SeqCheck sc = checkSequence(seq, a, b, dt);
            c.require("C20.time_sequence_contract", sc.ok, key, sc.why);
            c.check("C20.overshoot_beyond_end", std::max(0.0, sc.overshoot), 1e-6 + 4 * ulpOf(std::max(std::fabs(a), std::fabs(b))), key);
            c.event(seq.size() >= 2 && seq.back() == b && std::fabs((double)((LD)seq.back() - ((LD)a + (LD)(seq.size() - 1) * (LD)dt))) > 1e-9 * dt ? "sequence.end_appended" : "sequence.end_regular");
            if (icls == 0)
                c.require("C20.whole_range_overload", bitEqualVec(pp->genTimeSeqAll(dt), seq), key);
            if (seq.size() > 200000)
                continue;
            // batch == pointwise
            {
                int kk = gridAligned ? r.range(0, m.nc - 1) : r.range(0, std::min(3, m.nc));
                MatrixXd B = pp->evalBatch(seq, kk);
                bool ok = B.rows() == (int)seq.size();
                size_t stride = std::max<size_t>(1, seq.size() / (gridAligned ? 3000 : 300));
                for (size_t q = 0; q < seq.size() && ok; q += stride)
                    ok = sameVec(B.row(q).transpose(), pp->eval(seq[q], kk));
                c.require("C20.batch_equals_pointwise", ok, key);
            }
            // reported length = left-endpoint Riemann sum of speed over the sequence
            if (seq.size() <= 200000)
            {
                LD ref = 0, refabs = 0;
                for (size_t q = 0; q + 1 < seq.size(); ++q)
                {
                    std::vector<LD> val, abs;
                    modelEval(m, modelPiece(m, seq[q]), seq[q], 1, val, abs);
                    LD n2 = 0, a2 = 0;
                    for (int j = 0; j < dim; ++j)
                    {
                        n2 += val[j] * val[j];
                        a2 += abs[j] * abs[j];
                    }
                    LD dti = (LD)seq[q + 1] - (LD)seq[q];
                    ref += sqrtl(n2) * dti;
                    refabs += sqrtl(a2) * dti;
                }
                double L = pp->length(a, b, dt);
                double rel = (refabs > 0) ? (double)(fabsl((LD)L - ref) / refabs) : (L == 0 ? 0 : INFINITY);
                // rounding of the library's own running sum grows with the number of terms
                const double tolL = 1e-11 * std::max(1.0, (double)seq.size() / 1000.0);
                c.check("C20.length_is_left_riemann_sum", rel / tolL, 1.0, key);
                if (icls == 0)
                {
                    c.require("C20.length_whole_range_overload", bitEqual(pp->lengthAll(dt), L), key);
                }
                c.require("C20.length_nonnegative_finite", std::isfinite(L) && L >= 0, key);
            }
        }
    }
    // (b) arc-length bound and convergence on C1 trajectories (splines)
    for (auto od : splineCells())
    {
        std::string cell = "spline_o" + std::to_string(od.first) + "d" + std::to_string(od.second);
        if (!c.cellSelected(cell) || !selected(c.a.dims, od.second))
            continue;
        const uint64_t per2 = c.count(thorough ? 200 : 25);
        for (uint64_t idx = 0; idx < per2; ++idx)
        {
            if (!c.mine(idx))
                continue;
            Rng r = c.beginCase(cell, idx);
            GenOpts go;
            go.data_class = 0;
            Problem p = genProblem(r, od.first, od.second, r.range(1, 8), go);
            p.t0 = r.coin() ? 0.0 : r.uni(-100, 100);
            auto S = makeSplineDur(p);
            auto tr = S->trajectoryCopy(false);
            Model m;
            m.dim = p.dim;
            m.bp = tr->breakpoints();
            m.C = tr->coefficients();
            m.nc = p.ncoef();
            m.init = true;
            double a = m.bp.front(), b = m.bp.back();
            if (r.coin(0.4))
            {
                a = r.uni(m.bp.front(), m.bp.back());
                b = r.uni(a, m.bp.back());
            }
            double span = b - a;
            double dt = span > 0 ? span / r.range(20, 400) * r.uni(0.9, 1.1) : 0.01;
            c.dump = [&]() { return JObj().raw("start", jhex(a)).raw("end", jhex(b)).raw("dt", jhex(dt)).raw("problem", dumpProblem(p)).done(); };
            c.nontrivial(mix64(hashProblem(p), hashDoubles(&dt, 1)));
            std::string key = gkey(p, "arc_length");
            // true arc length and integral of |acc| by composite Gauss-Legendre between consecutive knots/samples
            LD vmax = 0;
            auto integrate = [&](double lo, double hi, LD &Ltrue, LD &Aint)
            {
                static const LD gx[4] = {0.1834346424956498049394761L, 0.5255324099163289858177390L, 0.7966664774136267395915539L, 0.9602898564975362316835609L};
                static const LD gw[4] = {0.3626837833783619829651504L, 0.3137066458778872873379622L, 0.2223810344533744705443560L, 0.1012285362903762591525314L};
                // split at breakpoints
                std::vector<double> cuts{lo};
                for (double bq : m.bp)
                    if (bq > lo && bq < hi)
                        cuts.push_back(bq);
                cuts.push_back(hi);
                for (size_t q = 0; q + 1 < cuts.size(); ++q)
                {
                    // speed is only Lipschitz where the velocity vanishes (always the case somewhere in 1-D): resolve such
                    // kinks on a partition four times finer than the finest step judged below
                    const double fine = std::max((hi - lo) / 40000.0, dt / 64.0);
                    const int sub = std::max(8, (int)std::ceil((cuts[q + 1] - cuts[q]) / fine));
                    for (int s2 = 0; s2 < sub; ++s2)
                    {
                        LD l = (LD)cuts[q] + ((LD)cuts[q + 1] - (LD)cuts[q]) * s2 / sub, h = (LD)cuts[q] + ((LD)cuts[q + 1] - (LD)cuts[q]) * (s2 + 1) / sub;
                        int piece = modelPiece(m, (double)((l + h) / 2));
                        for (int g = 0; g < 4; ++g)
                            for (int sg = -1; sg <= 1; sg += 2)
                            {
                                LD t = (l + h) / 2 + sg * gx[g] * (h - l) / 2;
                                LD v2 = 0, a2 = 0;
                                for (int j = 0; j < m.dim; ++j)
                                {
                                    LD dtl = t - (LD)m.bp[piece];
                                    LD v = polyDerivD(&m.C(piece * m.nc, j), 1, m.nc, dtl, 1).value;
                                    LD ac = polyDerivD(&m.C(piece * m.nc, j), 1, m.nc, dtl, 2).value;
                                    v2 += v * v;
                                    a2 += ac * ac;
                                }
                                if (sqrtl(v2) > vmax)
                                    vmax = sqrtl(v2);
                                Ltrue += gw[g] * sqrtl(v2) * (h - l) / 2;
                                Aint += gw[g] * sqrtl(a2) * (h - l) / 2;
                            }
                    }
                }
            };
            LD Ltrue = 0, Aint = 0;
            if (span > 0)
                integrate(a, b, Ltrue, Aint);
            double prevErr = -1;
            for (int level = 0; level < 3; ++level)
            {
                double d = dt / (1 << (2 * level));
                if (span / d > 2e5)
                    break;
                double L = tr->length(a, b, d);
                double err = std::fabs((double)((LD)L - Ltrue));
                // bound: step * integral |a|, plus quadrature slack (speed is only Lipschitz near zeros of v)
                // the sequence may legitimately stop up to 1e-6 short of the end (its own contract): that piece of the
                // curve, at most 1e-6 * max speed long, is not part of the sum
                double bound = d * (double)Aint * 1.000001 + 1e-9 * ((double)Ltrue + 1e-12) + 1.5e-6 * (double)vmax * 1.05;
                double slack = bound;
                if (getenv("VF_DEBUG"))
                    fprintf(stderr, "  level=%d d=%.6g L=%.15g Ltrue=%.15Lg err=%.6g Aint=%.6Lg bound=%.6g span=%.6g\n", level, d, L, Ltrue, err, Aint, bound, span);
                c.check("C20.length_within_step_times_integral_of_acc", slack > 0 ? err / slack : (err == 0 ? 0 : INFINITY), 1.0, key, "level=" + std::to_string(level));
                prevErr = err;
                c.event("arc_length_checks");
            }
            (void)prevErr;
            if (span > 0 && a == m.bp.front() && b == m.bp.back())
                c.require("C20.length_default_step_overload", bitEqual(tr->lengthDefault(), tr->length(a, b, 0.01)) || span / 0.01 > 3e6, key);
        }
    }
    // (c) factories
    for (auto cellp : ppolyCells())
    {
        const int dim = cellp.first, fo = cellp.second;
        if (!selected(c.a.dims, dim))
            continue;
        std::string cell = "factory_d" + std::to_string(dim) + "ord" + std::to_string(fo);
        if (!c.cellSelected(cell))
            continue;
        const uint64_t per3 = c.count(thorough ? 300 : 40);
        for (uint64_t idx = 0; idx < per3; ++idx)
        {
            if (!c.mine(idx))
                continue;
            Rng r = c.beginCase(cell, idx);
            auto proto = makePPoly(dim, fo);
            int nbp = r.coin(0.2) ? r.pick(std::vector<int>{2, 3, 32, 33, 34, 100}) : r.range(2, 40);
            std::vector<double> bp = genBreakpoints(r, nbp - 1);
            int nc = r.coin(0.25) ? -1 : r.range(1, fo > 0 ? fo : 12);
            VectorXd v(dim);
            for (int j = 0; j < dim; ++j)
                v(j) = r.coin(0.2) ? 0.0 : r.normal() * std::pow(10.0, r.range(-2, 3));
            c.dump = [&]() { return JObj().i("num_coefficients", nc).raw("breakpoints", jvec(bp, true)).raw("constant", jvec(v, true)).done(); };
            c.nontrivial(mix64(hashDoubles(bp.data(), bp.size()), hashDoubles(v.data(), v.size(), nc + 77)));
            if (idx < 1)
                c.wantSample();
            std::string key = JObj().i("dim", dim).i("fixed_order", fo).str("equation", "factory").done();
            auto z = proto->makeZero(bp, nc);
            auto k = proto->makeConstant(bp, v);
            int encz = nc < 0 ? 1 : nc;
            // (the property fixes the breakpoints and the values, not how many coefficients the factory stores)
            bool shape = z->isInitialized() && k->isInitialized() && bitEqualVec(z->breakpoints(), bp) && bitEqualVec(k->breakpoints(), bp) && z->numCoeffs() >= 1 &&
                         k->numCoeffs() >= 1 && z->numSegments() == nbp - 1 && k->numSegments() == nbp - 1;
            encz = std::max(encz, std::max(z->numCoeffs(), k->numCoeffs()));
            if (!c.require("C20.factory_shape", shape, key))
                continue;
            bool zok = true, kok = true;
            std::vector<double> ts{bp.front(), bp.back(), bp[r.range(0, nbp - 1)], bp.front() - 10, bp.back() + 10, 1e300, -1e300};
            for (int q = 0; q < 5; ++q)
                ts.push_back(r.uni(bp.front(), bp.back()));
            for (double t : ts)
                for (int d = 0; d <= encz + 1; ++d)
                {
                    int h = r.range(-1, nbp);
                    zok = zok && z->eval(t, d).cwiseAbs().maxCoeff() == 0 && z->evalHint(t, &h, d).cwiseAbs().maxCoeff() == 0;
                    VectorXd kv = k->eval(t, d);
                    if (d == 0)
                        kok = kok && bitEqualMat(kv, v) && bitEqualMat(k->evalHint(t, &h, 0), v);
                    else
                        kok = kok && kv.cwiseAbs().maxCoeff() == 0;
                }
            kok = kok && k->length(bp.front(), bp.back(), (bp.back() - bp.front()) / 7) == 0;
            c.require("C20.zero_factory_evaluates_to_zero", zok, key);
            c.require("C20.constant_factory_evaluates_to_constant", kok, key);
            // fewer than two breakpoints: not initialised (consistent with C16), no crash
            if (idx % 8 == 0)
            {
                auto z1 = proto->makeZero(std::vector<double>{1.0}, nc);
                auto k1 = proto->makeConstant(std::vector<double>(), v);
                c.require("C20.factory_rejects_short_breakpoints", !z1->isInitialized() && !k1->isInitialized(), key);
            }
        }
    }
}
// ------------------------------------------------------------------ distinct PPolyND objects in concurrent threads (C03)
// Every thread constructs, evaluates (plain, hinted, batch, derivative trajectory) and destroys its own objects; results
// under concurrency are compared bitwise with the same evaluations done alone (and the run is repeated under TSan).
std::vector<double> ppolyObservations(const IPPoly &proto, const Model &m, const std::vector<double> &ts)
{
    std::vector<double> out;
    auto pp = proto.makeCtor(m.bp, m.C, m.nc);
    auto push = [&](const VectorXd &v)
    {
        for (int j = 0; j < v.size(); ++j)
            out.push_back(v(j));
    };
    int hint = 0;
    for (int k = 0; k <= m.nc; ++k)
    {
        for (double t : ts)
        {
            push(pp->eval(t, k));
            push(pp->evalHint(t, &hint, k));
            out.push_back((double)hint);
        }
        MatrixXd b = pp->evalBatch(ts, k);
        for (int i = 0; i < b.rows(); ++i)
            push(b.row(i).transpose());
    }
    if (m.nc > 1)
    {
        auto d = pp->derivative(1);
        for (double t : ts)
            push(d->eval(t, 0));
    }
    for (auto &sv : pp->iterate(false))
        out.push_back(sv.start + sv.duration);
    return out;
}
void runThreadsPPoly(Ctx &c)
{
    const bool thorough = c.a.tier == "thorough";
    const int T = 4;
    const uint64_t per = c.count(thorough ? 60 : 10);
    for (auto cellp : ppolyCells())
    {
        const int dim = cellp.first, fo = cellp.second;
        if (!selected(c.a.dims, dim))
            continue;
        std::string cell = "threads_d" + std::to_string(dim) + "ord" + std::to_string(fo);
        if (!c.cellSelected(cell))
            continue;
        for (uint64_t idx = 0; idx < per; ++idx)
        {
            if (!c.mine(idx))
                continue;
            Rng r = c.beginCase(cell, idx);
            auto proto = makePPoly(dim, fo);
            const bool sameShape = r.coin();
            const int n0 = r.range(1, 40), nc0 = r.range(1, fo > 0 ? fo : 12);
            std::vector<Model> ms(T);
            std::vector<std::vector<double>> tss(T);
            uint64_t hh = 0;
            for (int t = 0; t < T; ++t)
            {
                ms[t] = genModel(r, dim, fo, sameShape ? n0 : -1, sameShape ? nc0 : -1);
                for (int q = 0; q < 6; ++q)
                    tss[t].push_back(r.uni(ms[t].bp.front() - 0.5, ms[t].bp.back() + 0.5));
                tss[t].push_back(ms[t].bp[r.range(0, ms[t].nseg())]);
                hh = mix64(hh, hashDoubles(ms[t].C.data(), ms[t].C.size(), t));
            }
            c.nontrivial(hh);
            const int reps = thorough ? 80 : 30;
            std::vector<std::vector<double>> first(T);
            std::vector<int> stable(T, 1);
            std::atomic<int> ready{0};
            std::vector<std::thread> th;
            for (int t = 0; t < T; ++t)
                th.emplace_back([&, t]()
                                {
                                    ready.fetch_add(1);
                                    while (ready.load() < T)
                                        std::this_thread::yield();
                                    for (int rep = 0; rep < reps; ++rep)
                                    {
                                        std::vector<double> o = ppolyObservations(*proto, ms[t], tss[t]);
                                        if (rep == 0)
                                            first[t] = o;
                                        else if (!bitEqualVec(o, first[t]))
                                            stable[t] = 0;
                                    } });
            for (auto &x : th)
                x.join();
            bool allStable = true, allEqual = true;
            for (int t = 0; t < T; ++t)
            {
                allStable = allStable && stable[t];
                allEqual = allEqual && bitEqualVec(first[t], ppolyObservations(*proto, ms[t], tss[t]));
            }
            std::string key = pkey(dim, fo, ms[0].nc, ms[0].nseg(), "threads");
            c.require("C03.concurrent_unrelated_objects_same_result_as_alone", allEqual, key);
            c.require("C03.concurrent_unrelated_objects_repeatable", allStable, key);
            c.event("thread_rounds");
            c.event("concurrent_object_computations", (uint64_t)T * reps);
        }
    }
}
} // namespace

int main(int argc, char **argv)
{
    Args a;
    if (!parseArgs(argc, argv, a))
    {
        fprintf(stderr, "usage: ppoly_driver --prop Cnn ...\n");
        return 2;
    }
    installCrashHandlers();
    installRoutesHook();
    Ctx c;
    c.a = a;
    c.prop_hash = hashStr(a.prop.c_str());
    if (!a.out.empty())
    {
        c.out = fopen(a.out.c_str(), "w");
        if (!c.out)
            return 2;
    }
    try
    {
        if (a.mode == "threads")
            runThreadsPPoly(c);
        else if (a.prop == "C03")
            runC03(c);
        else if (a.prop == "C11")
            runC11(c);
        else if (a.prop == "C16")
            runC16(c);
        else if (a.prop == "C20")
            runC20(c);
        else
        {
            fprintf(stderr, "ppoly_driver: unknown property %s\n", a.prop.c_str());
            return 2;
        }
    }
    catch (const std::exception &e)
    {
        fprintf(stderr, "VF_HARNESS_ERROR %s (%s)\n", e.what(), g_case_desc);
        return 3;
    }
    c.finish();
    if (c.out != stdout)
        fclose(c.out);
    return 0;
}
