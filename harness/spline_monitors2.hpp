// Spline monitors, part 2: C05 C06 C10 C13 C14.
#pragma once
#include <thread>
#include <atomic>
#include "spline_monitors.hpp"

namespace vf
{
struct Upstream
{
    MatrixXd gC;
    VectorXd gT;
    std::string kind;
};
inline Upstream genUpstream(Rng &r, const Problem &p, int cls = -1)
{
    Upstream u;
    const int nc = p.ncoef();
    u.gC = MatrixXd::Zero(nc * p.N, p.dim);
    u.gT = VectorXd::Zero(p.N);
    int k = cls >= 0 ? cls : r.range(0, 5);
    switch (k)
    {
    case 0:
    case 1:
        u.kind = "dense";
        for (int i = 0; i < u.gC.rows(); ++i)
            for (int j = 0; j < p.dim; ++j)
                u.gC(i, j) = r.normal();
        for (int i = 0; i < p.N; ++i)
            u.gT(i) = r.normal();
        break;
    case 2:
    case 3:
    {
        // unit vector: (coefficient row class) x (first / interior / last segment) x coordinate
        u.kind = "unit_coeff";
        int row = r.range(0, nc - 1);
        int segc = r.range(0, 2);
        int seg = segc == 0 ? 0 : (segc == 2 ? p.N - 1 : (p.N > 2 ? r.range(1, p.N - 2) : r.range(0, p.N - 1)));
        u.gC(seg * nc + row, r.range(0, p.dim - 1)) = 1.0;
        break;
    }
    case 4:
        u.kind = "sparse_time";
        u.gT(r.range(0, p.N - 1)) = r.coin() ? 1.0 : r.normal();
        if (r.coin())
            u.gC(r.range(0, (int)u.gC.rows() - 1), r.range(0, p.dim - 1)) = r.normal();
        break;
    default:
        u.kind = "one_segment_dense";
        {
            int seg = r.range(0, p.N - 1);
            for (int q = 0; q < nc; ++q)
                for (int j = 0; j < p.dim; ++j)
                    u.gC(seg * nc + q, j) = r.normal();
        }
        break;
    }
    return u;
}
inline double phiOf(const MatrixXd &C, const std::vector<double> &T, const Upstream &u, double *abssum = nullptr)
{
    LD v = 0, a = 0;
    for (int i = 0; i < C.rows(); ++i)
        for (int j = 0; j < C.cols(); ++j)
        {
            LD t = (LD)u.gC(i, j) * (LD)C(i, j);
            v += t;
            a += fabsl(t);
        }
    for (size_t i = 0; i < T.size(); ++i)
    {
        LD t = (LD)u.gT(i) * (LD)T[i];
        v += t;
        a += fabsl(t);
    }
    if (abssum)
        *abssum = (double)a;
    return (double)v;
}

// rounding scale of phi = <gC,C> + <gT,T>: every coefficient c_{i,k} carries the rounding scale sigma_i / h_i^k of the
// cancellations that produced it (not just its own magnitude, which may be the cancelled remainder)
inline double phiScale(const Problem &p, const MatrixXd &C, const Upstream &u)
{
    Scales sc = localScales(p, C);
    const int nc = p.ncoef();
    LD a = 0;
    for (int i = 0; i < p.N; ++i)
    {
        LD hk = 1;
        for (int k = 0; k < nc; ++k)
        {
            for (int j = 0; j < p.dim; ++j)
                a += fabsl((LD)u.gC(i * nc + k, j)) * (sc.sigma(i, j) + 1e-3L * sc.sglobal[j] + (k == 0 ? fabsl((LD)p.P(i, j)) : 0.0L)) / hk;
            hk *= (LD)p.T[i];
        }
        a += fabsl((LD)u.gT(i) * (LD)p.T[i]);
    }
    return (double)a;
}

// compares analytic gradients with FD of f over the listed components, group by group
struct GroupAcc
{
    double maxmag[kNumGroups];
    double maxexcess[kNumGroups];
    double maxraw[kNumGroups];
    double noiseMax[kNumGroups];
    bool seen[kNumGroups];
    GroupAcc()
    {
        for (int g = 0; g < kNumGroups; ++g)
            maxmag[g] = maxexcess[g] = maxraw[g] = noiseMax[g] = 0, seen[g] = false;
    }
    void add(int g, double analytic, double fd, double noise)
    {
        seen[g] = true;
        double m = std::max(std::fabs(analytic), std::fabs(fd));
        if (!(m <= maxmag[g]))
            maxmag[g] = std::isnan(m) ? INFINITY : m;
        double d = std::fabs(analytic - fd);
        if (std::isnan(d))
            d = INFINITY;
        maxraw[g] = std::max(maxraw[g], d);
        noiseMax[g] = std::max(noiseMax[g], noise);
        maxexcess[g] = std::max(maxexcess[g], std::max(0.0, d - noise));
    }
    double value(int g) const
    {
        if (maxexcess[g] == 0)
            return 0;
        if (!(maxmag[g] > 0))
            return INFINITY;
        return maxexcess[g] / maxmag[g];
    }
};

typedef std::function<double(const Problem &)> ScaleFn;
inline Problem shifted(const Problem &p, const std::vector<std::pair<InIdx, double>> &dir, double t)
{
    Problem q = p;
    for (auto &d : dir)
        inputRef(q, d.first) += t * d.second;
    return q;
}
inline void fdCompare(Ctx &c, const std::string &mon, const Problem &p, const Grads &an, const std::function<double(const Problem &)> &f,
                      const ScaleFn &scaleFn, Rng &r, int maxComponents, const std::string &detail)
{
    std::vector<InIdx> comps = enumerateInputs(p);
    if ((int)comps.size() > maxComponents)
    {
        r.shuffle(comps);
        // keep at least one of each group
        std::vector<InIdx> keep;
        bool have[kNumGroups] = {false};
        for (auto &x : comps)
            if (!have[x.group])
            {
                have[x.group] = true;
                keep.push_back(x);
            }
        for (auto &x : comps)
            if ((int)keep.size() < maxComponents)
                keep.push_back(x);
        comps = keep;
    }
    GroupAcc acc;
    const double phiBase = scaleFn(p);
    for (auto &x : comps)
    {
        double sc = inputScale(p, x);
        // the map is linear (energy: quadratic) in waypoints and boundary states, so the 4th-order stencil is exact for
        // any step there and a large step minimises rounding noise; durations enter non-linearly
        const double trel = (x.group == 0) ? 1e-3 : 0.25;
        double t = trel * sc;
        double fmax = 0;
        double fd = fd4(p, {{x, 1.0}}, t, f, &fmax);
        double trunc = 0;
        if (x.group == 0)
        {
            // durations enter non-linearly: a second, finer stencil estimates the oracle's own truncation error
            double fd2 = fd4(p, {{x, 1.0}}, t / 2, f, &fmax);
            trunc = std::fabs(fd - fd2);
            fd = fd2;
        }
        // rounding scale of f at the outermost stencil points (the perturbation itself may dominate it)
        double phiAbs = std::max(phiBase, std::max(scaleFn(shifted(p, {{x, 1.0}}, 2 * t)), scaleFn(shifted(p, {{x, 1.0}}, -2 * t))));
        double noise = (1e5 * 2.2e-16 / (x.group == 0 ? trel / 2 : trel) + (x.group == 0 ? 1e-9 : 0.0)) * (phiAbs + fmax) / sc + 2 * trunc;
        if (getenv("VF_DEBUG"))
            fprintf(stderr, "  %s[%d,%d] analytic=%.12g fd=%.12g noise=%.3g scale=%.3g\n", kGroupNames[x.group], x.i, x.j, gradAt(an, x), fd, noise, sc);
        acc.add(x.group, gradAt(an, x), fd, noise);
        if (getenv("VF_DEBUG"))
            fprintf(stderr, "  %s[%d,%d] analytic=%.12g fd=%.12g noise=%.3g scale=%.3g\n", kGroupNames[x.group], x.i, x.j, gradAt(an, x), fd, noise, sc);
        c.event("fd_components");
    }
    // self-test of the monitor (not of the library): would an error of 1e-4 of the group's magnitude in one component
    // have been flagged?  (excess needed: 1e-6 x magnitude; the noise band decides)
    for (int g = 0; g < kNumGroups; ++g)
        if (acc.seen[g] && acc.maxmag[g] > 0)
            c.event(acc.noiseMax[g] < 0.99e-4 * acc.maxmag[g] ? "sensitivity_probe_1e-4.would_detect" : "sensitivity_probe_1e-4.masked_by_noise_band");
    for (int g = 0; g < kNumGroups; ++g)
        if (acc.seen[g])
            c.check(mon + "." + kGroupNames[g], acc.value(g), 1e-6, JObj().i("order", p.order).i("dim", p.dim).i("segments", p.N).num("ratio", durRatio(p.T)).str("equation", "gradient").str("group", kGroupNames[g]).done(), detail);
}

// directional (adjoint dot) test: <grad, delta> vs FD along delta restricted to one group
inline void fdDirectional(Ctx &c, const std::string &mon, const Problem &p, const Grads &an, const std::function<double(const Problem &)> &f,
                          const ScaleFn &scaleFn, Rng &r, const std::string &detail)
{
    std::vector<InIdx> comps = enumerateInputs(p);
    const double phiBase = scaleFn(p);
    for (int g = 0; g < kNumGroups; ++g)
    {
        std::vector<std::pair<InIdx, double>> dir;
        double dot = 0, mag = 0, noise = 0;
        for (auto &x : comps)
            if (x.group == g)
            {
                double sc = inputScale(p, x);
                double w = sc * (r.coin() ? 1.0 : -1.0) * r.uni(0.3, 1.0);
                dir.push_back({x, w});
                dot += gradAt(an, x) * w;
                mag += std::fabs(gradAt(an, x) * w);
            }
        if (dir.empty())
            continue;
        double fmax = 0;
        const double trel = (g == 0) ? 1e-3 : 0.25;
        double fd = fd4(p, dir, trel, f, &fmax);
        double trunc = 0;
        if (g == 0)
        {
            double fd2 = fd4(p, dir, trel / 2, f, &fmax);
            trunc = std::fabs(fd - fd2);
            fd = fd2;
        }
        double phiAbs = std::max(phiBase, std::max(scaleFn(shifted(p, dir, 2 * trel)), scaleFn(shifted(p, dir, -2 * trel))));
        noise = (1e5 * 2.2e-16 / (g == 0 ? trel / 2 : trel) + (g == 0 ? 1e-9 * dir.size() : 0.0)) * (phiAbs + fmax) + 2 * trunc;
        double d = std::fabs(dot - fd);
        double ex = std::max(0.0, d - noise);
        double m = std::max(mag, std::fabs(fd));
        double v = ex == 0 ? 0 : (m > 0 ? ex / m : INFINITY);
        if (std::isnan(d))
            v = INFINITY;
        c.check(mon + ".dir." + kGroupNames[g], v, 1e-6, JObj().i("order", p.order).i("dim", p.dim).i("segments", p.N).num("ratio", durRatio(p.T)).str("equation", "gradient_directional").str("group", kGroupNames[g]).done(), detail);
        c.event("fd_directions");
    }
}

inline bool gradsBitEqual(const Grads &a, const Grads &b)
{
    return bitEqualMat(a.inner, b.inner) && bitEqualMat(a.times, b.times) && bitEqualMat(a.start, b.start) && bitEqualMat(a.end, b.end);
}
inline double gradsMaxAbs(const Grads &a)
{
    double m = 0;
    if (a.inner.size())
        m = std::max(m, a.inner.cwiseAbs().maxCoeff());
    if (a.times.size())
        m = std::max(m, a.times.cwiseAbs().maxCoeff());
    m = std::max(m, a.start.cwiseAbs().maxCoeff());
    m = std::max(m, a.end.cwiseAbs().maxCoeff());
    return m;
}
inline bool gradsFinite(const Grads &a) { return allFinite(a.inner) && allFinite(a.times) && allFinite(a.start) && allFinite(a.end); }
inline bool gradsShapeOk(const Grads &g, const Problem &p)
{
    return g.inner.rows() == std::max(0, p.N - 1) && (g.inner.rows() == 0 || g.inner.cols() == p.dim) && g.times.size() == p.N && g.start.rows() == 4 && g.end.rows() == 4;
}
inline std::string gkey(const Problem &p, const char *eq)
{
    return JObj().i("order", p.order).i("dim", p.dim).i("segments", p.N).num("ratio", durRatio(p.T)).str("equation", eq).done();
}

// ------------------------------------------------------------------ C05
inline void runC05(Ctx &c)
{
    const bool thorough = c.a.tier == "thorough";
    static const std::vector<int> nq{1, 2, 3, 4, 5, 6, 8, 10, 33, 64, 65, 100};
    static const std::vector<int> nt{1, 2, 3, 4, 5, 6, 7, 8, 9, 10, 16, 32, 33, 63, 64, 65, 100, 129};
    auto cells = splineCellList(c, thorough ? nt : nq);
    for (auto &cl : cells)
    {
        double nominal = thorough ? (cl.N <= 10 ? 60 : 10) : (cl.N <= 10 ? 10 : 1);
        const uint64_t per = c.count(nominal);
        for (uint64_t idx = 0; idx < per; ++idx)
        {
            if (!c.mine(idx))
                continue;
            Rng r = c.beginCase(cl.name, idx);
            GenOpts gopt;
            gopt.huge_t0_prob = 0.12;
            Problem p = genProblem(r, cl.order, cl.dim, cl.N, gopt);
            Upstream u = genUpstream(r, p, (int)(idx % 6));
            c.dump = [&]() { return JObj().str("upstream", u.kind).raw("gC", jmat(u.gC, true)).raw("gT", jvec(u.gT, true)).raw("problem", dumpProblem(p)).done(); };
            if (problemNontrivial(p))
                c.nontrivial(mix64(hashProblem(p), hashDoubles(u.gC.data(), u.gC.size(), hashDoubles(u.gT.data(), u.gT.size()))));
            if (idx < 1)
                c.wantSample();
            c.event("upstream." + u.kind);
            bool viaPts = false;
            auto s = makeSplineHist(c, r, p, viaPts);
            if (viaPts)
                p = effectiveFromPoints(p);
            const bool refOv = r.coin();
            Grads an = s->propagate(u.gC, u.gT, refOv);
            if (!c.require("C05.shape", gradsShapeOk(an, p), gkey(p, "shape")))
                continue;
            c.require("C05.finite", gradsFinite(an), gkey(p, "finite"));
            ScaleFn phiAbs = [&](const Problem &q) { return phiScale(q, makeSplineDur(q)->coeffs(), u); };
            auto f = [&](const Problem &q) -> double
            {
                auto t = makeSplineDur(q);
                return phiOf(t->coeffs(), q.T, u);
            };
            if (cl.N <= 6)
                fdCompare(c, "C05.fd", p, an, f, phiAbs, r, thorough ? 400 : 60, u.kind);
            else
            {
                fdCompare(c, "C05.fd", p, an, f, phiAbs, r, 24, u.kind);
                fdDirectional(c, "C05.fd", p, an, f, phiAbs, r, u.kind);
            }
            if (cl.N <= 6)
                fdDirectional(c, "C05.fd", p, an, f, phiAbs, r, u.kind);
            // independent forward map (dense extended-precision oracle), thorough only
            if (thorough && cl.N <= 4 && cl.dim <= 3 && idx % 4 == 0)
            {
                auto fo = [&](const Problem &q) -> double
                {
                    MatrixXld Cq = denseReference(q, false);
                    LD v = 0;
                    for (int i = 0; i < Cq.rows(); ++i)
                        for (int j = 0; j < Cq.cols(); ++j)
                            v += (LD)u.gC(i, j) * Cq(i, j);
                    for (int i = 0; i < q.N; ++i)
                        v += (LD)u.gT(i) * (LD)q.T[i];
                    return (double)v;
                };
                fdCompare(c, "C05.fd_oracle_forward", p, an, fo, phiAbs, r, 30, u.kind);
            }
            // linearity in the upstream gradient
            {
                Upstream u2 = genUpstream(r, p, 0);
                double a = r.uni(-2, 2), b = r.uni(-2, 2);
                Grads g1 = an, g2 = s->propagate(u2.gC, u2.gT, !refOv);
                MatrixXd gCc = a * u.gC + b * u2.gC;
                VectorXd gTc = a * u.gT + b * u2.gT;
                Grads gc = s->propagate(gCc, gTc, refOv);
                double sc = std::fabs(a) * gradsMaxAbs(g1) + std::fabs(b) * gradsMaxAbs(g2);
                double w = 0;
                if (g1.inner.size())
                    w = std::max(w, (gc.inner - (a * g1.inner + b * g2.inner)).cwiseAbs().maxCoeff());
                w = std::max(w, (gc.times - (a * g1.times + b * g2.times)).cwiseAbs().maxCoeff());
                w = std::max(w, (gc.start - (a * g1.start + b * g2.start)).cwiseAbs().maxCoeff());
                w = std::max(w, (gc.end - (a * g1.end + b * g2.end)).cwiseAbs().maxCoeff());
                c.check("C05.linearity", sc > 0 ? w / sc : (w == 0 ? 0 : INFINITY), 1e-8, gkey(p, "linearity"));
                // homogeneity over many orders of magnitude (tiny and huge upstream gradients are scaled, not dropped)
                {
                    double sf = r.pick(std::vector<double>{1e-14, 1e-10, 1e-6, 1e6, 1e12});
                    Grads gsc = s->propagate(sf * u.gC, sf * u.gT, refOv);
                    double m1 = gradsMaxAbs(g1);
                    double wsc = 0;
                    if (g1.inner.size())
                        wsc = std::max(wsc, (gsc.inner - sf * g1.inner).cwiseAbs().maxCoeff());
                    wsc = std::max(wsc, (gsc.times - sf * g1.times).cwiseAbs().maxCoeff());
                    wsc = std::max(wsc, (gsc.start - sf * g1.start).cwiseAbs().maxCoeff());
                    wsc = std::max(wsc, (gsc.end - sf * g1.end).cwiseAbs().maxCoeff());
                    c.check("C05.homogeneity", m1 > 0 ? wsc / (sf * m1) : (wsc == 0 ? 0 : INFINITY), 1e-9, gkey(p, "linearity"), "scale=" + jnum(sf));
                }
                // zero upstream gives exactly zero
                Grads gz = s->propagate(MatrixXd::Zero(u.gC.rows(), u.gC.cols()), VectorXd::Zero(p.N), refOv);
                c.require("C05.zero_upstream_zero_result", gradsMaxAbs(gz) == 0, gkey(p, "linearity"));
                // independence of earlier calls: same call again, other overload, stale output object, fresh object
                Grads again = s->propagate(u.gC, u.gT, refOv);
                Grads other = s->propagate(u.gC, u.gT, !refOv);
                Grads stale = s->propagateIntoStale(u.gC, u.gT, r.coin() ? -1 : r.range(0, 12));
                Grads fresh = makeSplineDur(p)->propagate(u.gC, u.gT, refOv);
                c.require("C05.call_history_independent", gradsBitEqual(again, an) && gradsBitEqual(other, an) && gradsBitEqual(stale, an) && gradsBitEqual(fresh, an), gkey(p, "history"));
                // the upstream duration gradient may live in the receiving object (in-place idiom)
                Grads aliased = s->propagateAliasedTimes(u.gC, u.gT);
                c.require("C05.in_place_upstream_times", gradsBitEqual(aliased, an), gkey(p, "history"));
                // propagation must not disturb the spline itself
                c.require("C05.propagation_leaves_spline_unchanged", bitEqualMat(s->coeffs(), makeSplineDur(p)->coeffs()) && bitEqual(s->energy(), makeSplineDur(p)->energy()), gkey(p, "history"));
            }
        }
    }
}

// ------------------------------------------------------------------ C06
inline void runC06(Ctx &c)
{
    const bool thorough = c.a.tier == "thorough";
    static const std::vector<int> nq{1, 2, 3, 4, 5, 6, 8, 10, 33, 64, 65, 100};
    static const std::vector<int> nt{1, 2, 3, 4, 5, 6, 7, 8, 9, 10, 16, 32, 33, 63, 64, 65, 100, 129};
    auto cells = splineCellList(c, thorough ? nt : nq);
    for (auto &cl : cells)
    {
        double nominal = thorough ? (cl.N <= 10 ? 60 : 10) : (cl.N <= 10 ? 10 : 1);
        const uint64_t per = c.count(nominal);
        for (uint64_t idx = 0; idx < per; ++idx)
        {
            if (!c.mine(idx))
                continue;
            Rng r = c.beginCase(cl.name, idx);
            GenOpts gopt;
            gopt.huge_t0_prob = 0.12;
            Problem p = genProblem(r, cl.order, cl.dim, cl.N, gopt);
            c.dump = [&]() { return dumpProblem(p); };
            if (problemNontrivial(p))
                c.nontrivial(hashProblem(p));
            if (idx < 1)
                c.wantSample();
            bool viaPts = false;
            auto s = makeSplineHist(c, r, p, viaPts);
            if (viaPts)
                p = effectiveFromPoints(p);
            MatrixXd C = s->coeffs();
            const int nc = p.ncoef(), sO = p.s();
            Grads an = s->energyGrad(false);
            if (!c.require("C06.shape", gradsShapeOk(an, p), gkey(p, "shape")))
                continue;
            c.require("C06.finite", gradsFinite(an), gkey(p, "finite"));
            auto energyScale = [&](const Problem &q) -> double
            {
                MatrixXd Cq = makeSplineDur(q)->coeffs();
                LD a = 0;
                for (int j = 0; j < q.dim; ++j)
                    for (int i = 0; i < q.N; ++i)
                        a += energyExact(&Cq(i * nc, j), colStride(Cq), nc, sO, q.T[i]).abssum;
                return (double)a;
            };
            LD Eabs = energyScale(p);
            ScaleFn escale = energyScale;
            auto f = [&](const Problem &q) -> double { return makeSplineDur(q)->energy(); };
            if (cl.N <= 6)
                fdCompare(c, "C06.fd", p, an, f, escale, r, thorough ? 400 : 60, "energy");
            else
                fdCompare(c, "C06.fd", p, an, f, escale, r, 24, "energy");
            fdDirectional(c, "C06.fd", p, an, f, escale, r, "energy");
            // the separate getters and both overloads agree with the combined result
            {
                Grads ref = s->energyGrad(true);
                MatrixXd bs, be;
                s->energyGradBoundary(bs, be);
                bool ok = gradsBitEqual(ref, an) && bitEqualMat(s->energyGradTimes(), an.times) && bitEqualMat(s->energyGradInner(), an.inner) && bitEqualMat(bs, an.start) && bitEqualMat(be, an.end);
                c.require("C06.getters_consistent", ok, gkey(p, "getters"));
                // reference overloads writing into caller-owned objects that hold stale content (same or other shape)
                bool st = gradsBitEqual(s->energyGradStale(true), an) && gradsBitEqual(s->energyGradStale(false), an);
                c.require("C06.reference_overload_ignores_stale_output_content", st, gkey(p, "getters"));
            }
            // partial derivatives against the definition, in extended precision
            {
                MatrixXd pc = s->partialC(false);
                VectorXd pt = s->partialT(false);
                bool shp = pc.rows() == nc * p.N && pc.cols() == p.dim && pt.size() == p.N;
                if (c.require("C06.partial_shape", shp, gkey(p, "shape")))
                {
                    c.require("C06.partial_overloads_equal", bitEqualMat(pc, s->partialC(true)) && bitEqualMat(pt, s->partialT(true)), gkey(p, "getters"));
                    c.require("C06.partial_reference_overload_ignores_stale_output_content",
                              bitEqualMat(pc, s->partialCStale(true)) && bitEqualMat(pc, s->partialCStale(false)) && bitEqualMat(pt, s->partialTStale(true)) && bitEqualMat(pt, s->partialTStale(false)), gkey(p, "getters"));
                    double wc = 0, wt = 0;
                    for (int i = 0; i < p.N; ++i)
                    {
                        LD h = p.T[i];
                        LD tv = 0, ta = 0;
                        for (int j = 0; j < p.dim; ++j)
                        {
                            for (int k = 0; k < nc; ++k)
                            {
                                LD v = 0, a = 0;
                                if (k >= sO)
                                    for (int m = sO; m < nc; ++m)
                                    {
                                        int e = k + m - 2 * sO + 1;
                                        LD t = 2 * ffact(k, sO) * ffact(m, sO) * (LD)C(i * nc + m, j) * powl(h, e) / (LD)e;
                                        v += t;
                                        a += fabsl(t);
                                    }
                                double d = (double)fabsl((LD)pc(i * nc + k, j) - v);
                                double rel = d == 0 ? 0 : (a > 0 ? (double)(d / a) : INFINITY);
                                if (std::isnan(d))
                                    rel = INFINITY;
                                wc = std::max(wc, rel);
                            }
                            PolyVal e = polyDerivD(&C(i * nc, j), colStride(C), nc, h, sO);
                            tv += e.value * e.value;
                            ta += e.abssum * e.abssum;
                        }
                        double d = (double)fabsl((LD)pt(i) - tv);
                        double rel = d == 0 ? 0 : (ta > 0 ? (double)(d / ta) : INFINITY);
                        if (std::isnan(d))
                            rel = INFINITY;
                        wt = std::max(wt, rel);
                    }
                    c.check("C06.partial_by_coeffs_vs_definition", wc, 1e-11, gkey(p, "partial_coeffs"));
                    c.check("C06.partial_by_times_vs_definition", wt, 1e-11, gkey(p, "partial_times"));
                    // propagating the partials reproduces the analytic gradients (also with the in-place idiom: the time
                    // partial written into the receiving object's `times` and passed from there)
                    Grads pr = r.coin(0.3) ? s->propagateAliasedTimes(pc, pt) : s->propagate(pc, pt, r.coin());
                    if (c.require("C06.propagate_shape", gradsShapeOk(pr, p), gkey(p, "shape")))
                    {
                        GroupAcc acc;
                        for (auto &x : enumerateInputs(p))
                        {
                            double sc = inputScale(p, x);
                            acc.add(x.group, gradAt(an, x), gradAt(pr, x), 1e-9 * (double)Eabs / sc);
                        }
                        for (int g = 0; g < kNumGroups; ++g)
                            if (acc.seen[g])
                                c.check(std::string("C06.propagated_partials_vs_analytic.") + kGroupNames[g], acc.value(g), 1e-8,
                                        JObj().i("order", p.order).i("dim", p.dim).i("segments", p.N).num("ratio", durRatio(p.T)).str("equation", "propagated_partials").str("group", kGroupNames[g]).done());
                    }
                }
            }
        }
    }
}

// ------------------------------------------------------------------ C13
inline Problem coordProblem(const Problem &p, int j)
{
    Problem q = p;
    q.dim = 1;
    q.P = p.P.col(j);
    q.bc.setZero(1);
    for (int d = 1; d <= 3; ++d)
    {
        q.bc.s(d)(0) = p.bc.s(d)(j);
        q.bc.e(d)(0) = p.bc.e(d)(j);
    }
    return q;
}
inline Problem permuteProblem(const Problem &p, const std::vector<int> &perm)
{
    Problem q = p;
    for (int j = 0; j < p.dim; ++j)
    {
        q.P.col(j) = p.P.col(perm[j]);
        for (int d = 1; d <= 3; ++d)
        {
            q.bc.s(d)(j) = p.bc.s(d)(perm[j]);
            q.bc.e(d)(j) = p.bc.e(d)(perm[j]);
        }
    }
    return q;
}
inline double relMat(const MatrixXd &a, const MatrixXd &b, double scale)
{
    if (a.rows() != b.rows() || a.cols() != b.cols())
        return INFINITY;
    if (a.size() == 0)
        return 0;
    double d = (a - b).cwiseAbs().maxCoeff();
    if (std::isnan(d))
        return INFINITY;
    if (d == 0)
        return 0;
    return scale > 0 ? d / scale : INFINITY;
}

inline void runC13(Ctx &c)
{
    const bool thorough = c.a.tier == "thorough";
    static const std::vector<int> nq{1, 2, 3, 4, 5, 7, 10};
    auto cells = splineCellList(c, thorough ? nListThorough() : nq);
    const uint64_t per = c.count(thorough ? 150 : 20);
    for (auto &cl : cells)
    {
        if (!haveSplineCell(cl.order, 1))
            throw std::runtime_error("C13 needs the 1-D cell");
        for (uint64_t idx = 0; idx < per; ++idx)
        {
            if (!c.mine(idx))
                continue;
            Rng r = c.beginCase(cl.name, idx);
            GenOpts g13;
            g13.huge_t0_prob = 0.06;
            Problem p = genProblem(r, cl.order, cl.dim, cl.N, g13);
            const bool onehot = (idx % 4 == 3);
            int hot = r.range(0, cl.dim - 1);
            if (onehot)
            {
                for (int j = 0; j < p.dim; ++j)
                    if (j != hot)
                    {
                        p.P.col(j).setZero();
                        for (int d = 1; d <= 3; ++d)
                            p.bc.s(d)(j) = p.bc.e(d)(j) = 0;
                    }
                if (p.P.col(hot).cwiseAbs().maxCoeff() == 0)
                    p.P(r.range(0, p.N), hot) = 1.5;
            }
            if (!onehot && p.dim > 1 && r.coin(0.15))
            {
                // coordinates of wildly different magnitude (metres next to nanometres): each must still be its own 1-D spline
                int j = r.range(0, p.dim - 1);
                double sf = std::pow(10.0, -(double)r.range(10, 16));
                p.P.col(j) *= sf;
                for (int d = 1; d <= 3; ++d)
                {
                    p.bc.s(d)(j) *= sf;
                    p.bc.e(d)(j) *= sf;
                }
                c.event("data.coordinate_scaled_down");
            }
            Upstream u = genUpstream(r, p, onehot ? 0 : (int)(idx % 6));
            if (onehot)
                for (int j = 0; j < p.dim; ++j)
                    if (j != hot)
                        u.gC.col(j).setZero();
            {
                // magnitudes of the upstream gradient span many orders, also per coordinate (all comparisons are relative)
                int sm = r.range(0, 5);
                if (sm == 0)
                {
                    double sf = r.pick(std::vector<double>{1e-13, 1e-9, 1e5});
                    u.gC *= sf;
                    u.gT *= sf;
                }
                else if (sm == 1 && p.dim > 1)
                    u.gC.col(r.range(0, p.dim - 1)) *= r.pick(std::vector<double>{1e-13, 1e-10});
            }
            c.dump = [&]() { return JObj().b("one_hot", onehot).str("upstream", u.kind).raw("gC", jmat(u.gC, true)).raw("gT", jvec(u.gT, true)).raw("problem", dumpProblem(p)).done(); };
            if (problemNontrivial(p))
                c.nontrivial(hashProblem(p));
            if (idx < 1)
                c.wantSample();
            // the D-dimensional object may be a reused one (any history, either overload); the 1-D splines are fresh
            bool viaPts = false;
            auto s = makeSplineHist(c, r, p, viaPts);
            MatrixXd C = s->coeffs();
            const int nc = p.ncoef();
            if (!c.require("C13.shape", C.rows() == nc * p.N && C.cols() == p.dim, gkey(p, "shape")))
                continue;
            Grads g = s->propagate(u.gC, u.gT, r.coin());
            Grads eg = s->energyGrad(false);
            double E = s->energy();
            if (!c.require("C13.grad_shape", gradsShapeOk(g, p) && gradsShapeOk(eg, p), gkey(p, "shape")))
                continue;
            // stack of 1-D splines
            MatrixXd Cst(C.rows(), C.cols());
            Grads gs, egs;
            gs.inner = MatrixXd::Zero(std::max(0, p.N - 1), p.dim);
            gs.times = u.gT;
            gs.start = MatrixXd::Zero(4, p.dim);
            gs.end = MatrixXd::Zero(4, p.dim);
            egs = gs;
            egs.times = VectorXd::Zero(p.N);
            VectorXd gsTimesAbs = u.gT.cwiseAbs(), egsTimesAbs = VectorXd::Zero(p.N);
            LD Esum = 0, Eabs = 0;
            std::vector<double> ts;
            std::vector<double> cum = s->cumTimes();
            for (int q = 0; q < 5; ++q)
                ts.push_back(r.uni(cum.front() - 0.5, cum.back() + 0.5));
            ts.push_back(cum[r.range(0, p.N)]);
            double wEval = 0;
            for (int j = 0; j < p.dim; ++j)
            {
                Problem q = coordProblem(p, j);
                auto s1 = viaPts ? makeSplinePts(q) : makeSplineDur(q);
                MatrixXd C1 = s1->coeffs();
                Cst.col(j) = C1.col(0);
                Grads g1 = s1->propagate(u.gC.col(j), VectorXd::Zero(p.N), false);
                Grads e1 = s1->energyGrad(false);
                if (p.N > 1)
                {
                    gs.inner.col(j) = g1.inner.col(0);
                    egs.inner.col(j) = e1.inner.col(0);
                }
                gs.start.col(j) = g1.start.col(0);
                gs.end.col(j) = g1.end.col(0);
                egs.start.col(j) = e1.start.col(0);
                egs.end.col(j) = e1.end.col(0);
                gs.times += g1.times;
                gsTimesAbs += g1.times.cwiseAbs();
                egs.times += e1.times;
                egsTimesAbs += e1.times.cwiseAbs();
                double E1 = s1->energy();
                Esum += E1;
                Eabs += std::fabs(E1);
                for (double t : ts)
                    for (int k = 0; k <= nc; ++k)
                    {
                        double a = s->trajEval(t, k)(j), b = s1->trajEval(t, k)(0);
                        // scale: rounding scale of the evaluation from the 1-D coefficients
                        int seg = 0;
                        while (seg + 1 < p.N && t >= cum[seg + 1])
                            ++seg;
                        PolyVal pv = polyDerivD(&C1(seg * nc, 0), colStride(C1), nc, (LD)t - (LD)cum[seg], k);
                        wEval = std::max(wEval, scaledDiff(a, b, (double)pv.abssum));
                    }
            }
            // coefficients coordinate by coordinate
            {
                MatrixXld Cref = Cst.cast<LD>();
                c.check("C13.coeffs_vs_1d_stack", coeffError(p, C, Cref, 1e-3), 1e-8, gkey(p, "coefficients"));
            }
            c.check("C13.evaluations_vs_1d_stack", wEval, 1e-8, gkey(p, "evaluation"));
            double gsc = std::max(gradsMaxAbs(g), gradsMaxAbs(gs));
            {
                // coordinate by coordinate, each against its own magnitude (coordinates may differ by many orders)
                double wI = 0, wB = 0;
                for (int j = 0; j < p.dim; ++j)
                {
                    double cs = std::max(g.start.col(j).cwiseAbs().maxCoeff(), g.end.col(j).cwiseAbs().maxCoeff());
                    cs = std::max(cs, std::max(gs.start.col(j).cwiseAbs().maxCoeff(), gs.end.col(j).cwiseAbs().maxCoeff()));
                    if (p.N > 1)
                        cs = std::max(cs, std::max(g.inner.col(j).cwiseAbs().maxCoeff(), gs.inner.col(j).cwiseAbs().maxCoeff()));
                    if (p.N > 1)
                        wI = std::max(wI, relMat(g.inner.col(j), gs.inner.col(j), cs));
                    wB = std::max(wB, std::max(relMat(g.start.col(j), gs.start.col(j), cs), relMat(g.end.col(j), gs.end.col(j), cs)));
                }
                c.check("C13.propagated_points_vs_1d", wI, 1e-8, gkey(p, "propagated_inner"));
                c.check("C13.propagated_boundary_vs_1d", wB, 1e-8, gkey(p, "propagated_boundary"));
            }
            c.check("C13.propagated_times_is_sum", relMat(g.times, gs.times, gsTimesAbs.maxCoeff()), 1e-8, gkey(p, "propagated_times"));
            double esc = std::max(gradsMaxAbs(eg), gradsMaxAbs(egs));
            c.check("C13.energy_grad_points_vs_1d", std::max(relMat(eg.inner, egs.inner, esc), std::max(relMat(eg.start, egs.start, esc), relMat(eg.end, egs.end, esc))), 1e-8, gkey(p, "energy_grad"));
            c.check("C13.energy_grad_times_is_sum", relMat(eg.times, egs.times, egsTimesAbs.size() ? egsTimesAbs.maxCoeff() : 0), 1e-8, gkey(p, "energy_grad_times"));
            c.check("C13.energy_is_sum", scaledDiff(E, (double)Esum, (double)Eabs), 1e-9, gkey(p, "energy"));
            // one-hot: silent coordinates stay exactly zero
            if (onehot)
            {
                bool z = true;
                for (int j = 0; j < p.dim; ++j)
                    if (j != hot)
                    {
                        z = z && C.col(j).cwiseAbs().maxCoeff() == 0;
                        if (p.N > 1)
                            z = z && g.inner.col(j).cwiseAbs().maxCoeff() == 0 && eg.inner.col(j).cwiseAbs().maxCoeff() == 0;
                        z = z && g.start.col(j).cwiseAbs().maxCoeff() == 0 && g.end.col(j).cwiseAbs().maxCoeff() == 0;
                        z = z && eg.start.col(j).cwiseAbs().maxCoeff() == 0 && eg.end.col(j).cwiseAbs().maxCoeff() == 0;
                        for (double t : ts)
                            z = z && s->trajEval(t, 0)(j) == 0 && s->trajEval(t, 1)(j) == 0;
                    }
                c.require("C13.one_hot_other_coordinates_zero", z, gkey(p, "one_hot"));
                c.event("one_hot_cases");
            }
            // permutation of coordinates
            if (p.dim > 1)
            {
                std::vector<int> perm(p.dim);
                for (int j = 0; j < p.dim; ++j)
                    perm[j] = j;
                r.shuffle(perm);
                Problem q = permuteProblem(p, perm);
                Upstream uq = u;
                for (int j = 0; j < p.dim; ++j)
                    uq.gC.col(j) = u.gC.col(perm[j]);
                auto sq = viaPts ? makeSplinePts(q) : makeSplineDur(q);
                MatrixXd Cq = sq->coeffs();
                Grads gq = sq->propagate(uq.gC, uq.gT, false);
                MatrixXd Cp(C.rows(), C.cols());
                Grads gp = g;
                for (int j = 0; j < p.dim; ++j)
                {
                    Cp.col(j) = C.col(perm[j]);
                    if (p.N > 1)
                        gp.inner.col(j) = g.inner.col(perm[j]);
                    gp.start.col(j) = g.start.col(perm[j]);
                    gp.end.col(j) = g.end.col(perm[j]);
                }
                MatrixXld Cref = Cp.cast<LD>();
                double w = coeffError(q, Cq, Cref, 1e-3);
                w = std::max(w, relMat(gq.inner, gp.inner, gsc));
                w = std::max(w, relMat(gq.start, gp.start, gsc));
                w = std::max(w, relMat(gq.end, gp.end, gsc));
                w = std::max(w, relMat(gq.times, g.times, gsTimesAbs.maxCoeff()));
                w = std::max(w, scaledDiff(sq->energy(), E, (double)Eabs));
                c.check("C13.permutation_equivariance", w, 1e-8, gkey(p, "permutation"));
            }
        }
    }
}

// ------------------------------------------------------------------ C14
inline double gradsRel(const Grads &a, const Grads &b, double scale)
{
    double w = relMat(a.inner, b.inner, scale);
    w = std::max(w, relMat(a.times, b.times, scale));
    w = std::max(w, relMat(a.start, b.start, scale));
    w = std::max(w, relMat(a.end, b.end, scale));
    return w;
}
// the transformed problem is solved either on a fresh object or by re-updating a copy of the original object (same
// segment count): a relation must hold whichever way the second spline came about
inline std::unique_ptr<ISpline> splineForRelation(Ctx &c, Rng &r, const ISpline &orig, const Problem &q)
{
    if (r.coin(0.5))
    {
        c.event("second_spline.fresh");
        return makeSplineDur(q);
    }
    auto cp = orig.clone();
    (void)cp->trajEval(orig.startTime(), 0);
    cp->updateDur(q.T, q.P, q.t0, q.bc);
    c.event("second_spline.reupdated_copy");
    return cp;
}
inline void runC14(Ctx &c)
{
    const bool thorough = c.a.tier == "thorough";
    static const std::vector<int> nq{1, 2, 3, 4, 5, 7, 10};
    auto cells = splineCellList(c, thorough ? nListThorough() : nq);
    const uint64_t per = c.count(thorough ? 150 : 24);
    for (auto &cl : cells)
        for (uint64_t idx = 0; idx < per; ++idx)
        {
            if (!c.mine(idx))
                continue;
            Rng r = c.beginCase(cl.name, idx);
            GenOpts go;
            // first/last placement patterns get extra weight (first-/last-block asymmetry)
            static const int pats[] = {7, 8, 9, 10, 2, 3, 0, 1, 4, 5, 6, 11, 12, 13, 14};
            go.dur_pattern = pats[idx % 15];
            int pat = 0, dc = 0;
            Problem p = genProblem(r, cl.order, cl.dim, cl.N, go, &pat, &dc);
            const int nc = p.ncoef(), sO = p.s();
            int relation = (int)((idx / 15) % 5);
            c.dump = [&]() { return JObj().i("relation", relation).str("dur_pattern", kDurPatternNames[pat]).raw("problem", dumpProblem(p)).done(); };
            if (problemNontrivial(p))
                c.nontrivial(mix64(hashProblem(p), relation));
            if (idx < 1)
                c.wantSample();
            // translation by an exactly representable offset of exactly representable waypoints: the waypoint differences of
            // the two problems are bitwise the same, so nothing but the constant coefficients may move, at any offset size
            const bool exactTr = relation == 1 && r.coin(0.4);
            double exactUnit = 0;
            if (exactTr)
            {
                double pm = std::max(p.P.cwiseAbs().maxCoeff(), 1e-3);
                exactUnit = std::ldexp(1.0, (int)std::ceil(std::log2(pm)));
                const double g = std::ldexp(exactUnit, -20);
                for (int i = 0; i <= p.N; ++i)
                    for (int j = 0; j < p.dim; ++j)
                        p.P(i, j) = std::nearbyint(p.P(i, j) / g) * g;
            }
            auto s = makeSplineDur(p);
            MatrixXd C = s->coeffs();
            if (!c.require("C14.shape", C.rows() == nc * p.N && C.cols() == p.dim, gkey(p, "shape")))
                continue;
            double E = s->energy();
            Grads eg = s->energyGrad(false);
            Upstream u = genUpstream(r, p, 0);
            u.gT.setZero();
            Grads pg = s->propagate(u.gC, u.gT, false);
            LD Eabs = 0;
            for (int j = 0; j < p.dim; ++j)
                for (int i = 0; i < p.N; ++i)
                    Eabs += energyExact(&C(i * nc, j), colStride(C), nc, sO, p.T[i]).abssum;
            MatrixXld Cld = C.cast<LD>();
            const double egS = gradsMaxAbs(eg), pgS = gradsMaxAbs(pg);
            switch (relation)
            {
            case 0: // start-time shift
            {
                Problem q = p;
                // "every start time": moderate shifts, and astronomically large ones (nothing but the knot times may depend on it)
                double shift = r.coin(0.25) ? r.pick(std::vector<double>{1e9, -1e9, 1e12, -3e11, -1e12}) : (r.coin() ? std::ldexp(1.0, r.range(-3, 12)) * (r.coin() ? 1 : -1) : r.uni(-1e3, 1e3));
                q.t0 = p.t0 + shift;
                // the shifted problem may also be specified by absolute time points (moderate times only: the durations are then
                // differences of rounded sums, equal to the original ones within eps*|t|/T)
                const bool shiftedByPoints = std::fabs(q.t0) <= 64 && std::fabs(p.t0) <= 64 && r.coin(0.4);
                auto sq = shiftedByPoints ? (r.coin() ? makeSplinePts(q) : [&]() { auto z = s->clone(); z->updatePts(q.timePoints(), q.P, q.bc); return z; }()) : splineForRelation(c, r, *s, q);
                const double shTol = shiftedByPoints ? 3e-8 : 1e-12;
                if (shiftedByPoints)
                    c.event("relation.shift_by_time_points");
                c.check(std::string("C14.shift.coeffs_unchanged") + (shiftedByPoints ? ".time_points" : ""), coeffError(q, sq->coeffs(), Cld, 1e-3), shTol, gkey(p, "shift"));
                c.check(std::string("C14.shift.energy_unchanged") + (shiftedByPoints ? ".time_points" : ""), scaledDiff(sq->energy(), E, (double)Eabs), shTol, gkey(p, "shift"));
                c.check(std::string("C14.shift.gradients_unchanged") + (shiftedByPoints ? ".time_points" : ""), std::max(gradsRel(sq->energyGrad(false), eg, egS), gradsRel(sq->propagate(u.gC, u.gT, false), pg, pgS)), shTol, gkey(p, "shift"));
                std::vector<double> cq = sq->cumTimes();
                bool ok = (int)cq.size() == p.N + 1 && bitEqual(cq[0], q.t0) && bitEqual(sq->startTime(), q.t0);
                LD acc = q.t0;
                double tmax = std::fabs(q.t0);
                for (int i = 0; i < p.N && ok; ++i)
                {
                    acc += (LD)p.T[i];
                    tmax = std::max(tmax, std::fabs((double)acc));
                }
                acc = q.t0;
                for (int i = 0; i < p.N && ok; ++i)
                {
                    acc += (LD)p.T[i];
                    ok = ok && std::fabs((double)((LD)cq[i + 1] - acc)) <= (i + 1) * ulpOf(tmax);
                }
                c.require("C14.shift.knot_times_shifted", ok, gkey(p, "shift"));
                // evaluating at shifted times gives the same values
                double w = 0;
                std::vector<double> c0 = s->cumTimes();
                for (int i = 0; i < p.N; ++i)
                {
                    double fr = r.uni(0, 1);
                    for (int k = 0; k < 3; ++k)
                    {
                        VectorXd a = s->segEval(i, fr * p.T[i], k), b = sq->segEval(i, fr * p.T[i], k);
                        w = std::max(w, relMat(a, b, a.cwiseAbs().maxCoeff() + 1e-300));
                    }
                }
                if (!shiftedByPoints) // (values relative to themselves: only meaningful where the two coefficient sets are bit-equal)
                    c.check("C14.shift.evaluation_unchanged", w, 1e-12, gkey(p, "shift"));
                c.event("relation.shift");
                break;
            }
            case 1: // translation
            {
                Problem q = p;
                VectorXd w(p.dim);
                double S = 0;
                Scales sc = localScales(p, C);
                for (int j = 0; j < p.dim; ++j)
                    S = std::max(S, (double)sc.sglobal[j]);
                double wmax = 0;
                for (int j = 0; j < p.dim; ++j)
                {
                    w(j) = (r.coin() ? std::ldexp(1.0, r.range(-2, 6)) : r.uni(-50, 50)) * std::max(S, 1e-3) * (r.coin() ? 1 : -1);
                    if (exactTr) // far-away frames (UTM/ECEF-like): up to 2^31 units, still exact on the 2^-20 grid
                        w(j) = std::ldexp(exactUnit, r.range(4, 31)) * (r.coin() ? 1 : -1) + std::ldexp(exactUnit, -20) * (double)r.range(-1000, 1000);
                    wmax = std::max(wmax, std::fabs(w(j)));
                }
                for (int i = 0; i <= p.N; ++i)
                    q.P.row(i) += w.transpose();
                auto sq = splineForRelation(c, r, *s, q);
                MatrixXd Cq = sq->coeffs();
                // expected: c0 rows shifted, everything else equal
                MatrixXld Cexp = Cld;
                for (int i = 0; i < p.N; ++i)
                    for (int j = 0; j < p.dim; ++j)
                        Cexp(i * nc, j) += (LD)w(j);
                // translation perturbs the waypoint differences by rounding of size eps*|P+w|; allow for it
                double pmax = p.P.cwiseAbs().maxCoeff() + wmax;
                // (the effect of that perturbation on the solution grows with the conditioning of the system, i.e. with the
                // duration ratio; exactly representable translations, below, are judged tightly at every ratio)
                double tol = 1e-8 * (1.0 + pmax / std::max(S, 1e-300)) * std::max(1.0, durRatio(p.T) / 30.0);
                if (exactTr)
                {
                    bool exact = true;
                    for (int i = 0; i <= p.N && exact; ++i)
                        for (int j = 0; j < p.dim && exact; ++j)
                            exact = (LD)q.P(i, j) == (LD)p.P(i, j) + (LD)w(j);
                    if (exact)
                        tol = 3e-11;
                    c.event(exact ? "relation.translation_exact" : "relation.translation_exact_skipped");
                }
                c.check("C14.translation.coeffs", coeffError(q, Cq, Cexp, 1e-3) / tol, 1.0, gkey(p, "translation"));
                c.check("C14.translation.energy_unchanged", scaledDiff(sq->energy(), E, (double)Eabs) / tol, 1.0, gkey(p, "translation"));
                c.check("C14.translation.gradients_unchanged", std::max(gradsRel(sq->energyGrad(false), eg, egS), gradsRel(sq->propagate(u.gC, u.gT, false), pg, pgS)) / tol, 1.0, gkey(p, "translation"));
                c.event("relation.translation");
                if (exactTr && tol < 1e-10 && r.coin(0.5))
                {
                    // the translated object is re-planned with one waypoint moved by a single grid unit (tiny compared with the
                    // offset): the relation must hold for the new data as well
                    const int wi = r.range(0, p.N), wj = r.range(0, p.dim - 1);
                    const double gu = std::ldexp(exactUnit, -20) * (double)r.range(1, 1024);
                    Problem p2 = p, q2 = q;
                    p2.P(wi, wj) += gu;
                    q2.P(wi, wj) += gu;
                    if ((LD)q2.P(wi, wj) == (LD)p2.P(wi, wj) + (LD)w(wj))
                    {
                        sq->updateDur(q2.T, q2.P, q2.t0, q2.bc);
                        auto s2 = makeSplineDur(p2);
                        MatrixXld C2 = s2->coeffs().cast<LD>();
                        for (int i = 0; i < p.N; ++i)
                            for (int j = 0; j < p.dim; ++j)
                                C2(i * nc, j) += (LD)w(j);
                        c.check("C14.translation.coeffs_after_small_replan", coeffError(q2, sq->coeffs(), C2, 1e-3) / tol, 1.0, gkey(p, "translation"));
                        c.check("C14.translation.energy_after_small_replan", scaledDiff(sq->energy(), s2->energy(), (double)Eabs) / tol, 1.0, gkey(p, "translation"));
                        c.event("relation.translation_exact_small_replan");
                    }
                }
                break;
            }
            case 2: // scaling of the data
            {
                bool pow2 = r.coin();
                double lam = pow2 ? std::ldexp(1.0, r.range(-6, 6)) * (r.coin(0.3) ? -1 : 1) : r.uni(0.1, 8.0) * (r.coin(0.3) ? -1 : 1);
                Problem q = p;
                q.P *= lam;
                for (int d = 1; d <= 3; ++d)
                {
                    q.bc.s(d) *= lam;
                    q.bc.e(d) *= lam;
                }
                auto sq = splineForRelation(c, r, *s, q);
                MatrixXld Cexp = Cld * (LD)lam;
                // powers of two: every operation is scaled exactly; arbitrary reals: rounding times the solver's amplification
                const double tol = pow2 ? 1e-12 : 1e-8;
                const std::string sfx = pow2 ? ".pow2" : ".real";
                c.check("C14.scale_data.coeffs" + sfx, coeffError(q, sq->coeffs(), Cexp, 1e-3), tol, gkey(p, "scale_data"));
                c.check("C14.scale_data.energy" + sfx, scaledDiff(sq->energy(), E * lam * lam, (double)Eabs * lam * lam), tol, gkey(p, "scale_data"));
                Grads e2 = sq->energyGrad(false), ex = eg;
                ex.inner *= lam;
                ex.start *= lam;
                ex.end *= lam;
                ex.times *= lam * lam;
                double w = std::max(relMat(e2.inner, ex.inner, egS * std::fabs(lam)), std::max(relMat(e2.start, ex.start, egS * std::fabs(lam)), relMat(e2.end, ex.end, egS * std::fabs(lam))));
                // (duration gradients are sums that can cancel: judged against the size of their terms, not only of their value)
                const double tminD = *std::min_element(p.T.begin(), p.T.end());
                const double egTimesScale = std::max(eg.times.size() ? eg.times.cwiseAbs().maxCoeff() : 0.0, 1e-6 * (double)Eabs * (2 * sO - 1) / tminD);
                w = std::max(w, relMat(e2.times, ex.times, egTimesScale * lam * lam));
                c.check("C14.scale_data.energy_gradients" + sfx, w, tol, gkey(p, "scale_data"));
                // propagation with the same upstream: the map is linear in the data, so point/boundary gradients are unchanged
                Grads p2 = sq->propagate(u.gC, u.gT, false), px = pg;
                px.times *= lam;
                double w2 = std::max(relMat(p2.inner, px.inner, pgS), std::max(relMat(p2.start, px.start, pgS), relMat(p2.end, px.end, pgS)));
                LD termScale = 0;
                for (int i = 0; i < p.N; ++i)
                    for (int k = 0; k < nc; ++k)
                        for (int j = 0; j < p.dim; ++j)
                            termScale += fabsl((LD)u.gC(i * nc + k, j) * (LD)C(i * nc + k, j)) * (k + 1) / (LD)p.T[i];
                const double pgTimesScale = std::max(pg.times.size() ? pg.times.cwiseAbs().maxCoeff() : 0.0, 1e-6 * (double)termScale);
                w2 = std::max(w2, relMat(p2.times, px.times, pgTimesScale * std::fabs(lam)));
                c.check("C14.scale_data.propagated_gradients" + sfx, w2, tol, gkey(p, "scale_data"));
                c.event(pow2 ? "relation.scale_data_pow2" : "relation.scale_data_real");
                break;
            }
            case 3: // scaling of the durations
            {
                bool pow2 = r.coin();
                double mu = pow2 ? std::ldexp(1.0, r.range(-2, 2)) : r.uni(0.5, 2.0);
                Problem q = p;
                for (auto &t : q.T)
                    t *= mu;
                for (int d = 1; d <= 3; ++d)
                {
                    q.bc.s(d) /= std::pow(mu, d);
                    q.bc.e(d) /= std::pow(mu, d);
                }
                auto sq = splineForRelation(c, r, *s, q);
                MatrixXld Cexp = Cld;
                for (int i = 0; i < p.N; ++i)
                    for (int k = 0; k < nc; ++k)
                        for (int j = 0; j < p.dim; ++j)
                            Cexp(i * nc + k, j) = Cld(i * nc + k, j) / powl((LD)mu, k);
                const double tol = pow2 ? 1e-12 : 1e-8;
                const std::string sfx = pow2 ? ".pow2" : ".real";
                c.check("C14.scale_time.coeffs" + sfx, coeffError(q, sq->coeffs(), Cexp, 1e-3), tol, gkey(p, "scale_time"));
                double fac = std::pow(mu, -(2 * sO - 1));
                c.check("C14.scale_time.energy" + sfx, scaledDiff(sq->energy(), E * fac, (double)Eabs * fac), tol, gkey(p, "scale_time"));
                // same curve: position at corresponding times
                double w = 0;
                Scales scs = localScales(p, C);
                for (int i = 0; i < p.N; ++i)
                {
                    double fr = r.uni(0, 1);
                    VectorXd a = s->segEval(i, fr * p.T[i], 0), b = sq->segEval(i, fr * q.T[i], 0);
                    for (int j = 0; j < p.dim; ++j)
                        w = std::max(w, scaledDiff(a(j), b(j), std::fabs(p.P(i, j)) + std::fabs(p.P(i + 1, j)) + (double)scs.sigma(i, j) + 1e-3 * (double)scs.sglobal[j]));
                }
                c.check("C14.scale_time.same_curve" + sfx, w, pow2 ? 1e-11 : 1e-8, gkey(p, "scale_time"));
                std::vector<double> cq = sq->cumTimes();
                c.require("C14.scale_time.start_time_kept", bitEqual(cq[0], p.t0), gkey(p, "scale_time"));
                c.event(pow2 ? "relation.scale_time_pow2" : "relation.scale_time_real");
                break;
            }
            default: // time reversal
            {
                Problem q = p;
                for (int i = 0; i <= p.N; ++i)
                    q.P.row(i) = p.P.row(p.N - i);
                for (int i = 0; i < p.N; ++i)
                    q.T[i] = p.T[p.N - 1 - i];
                for (int d = 1; d <= 3; ++d)
                {
                    double sg = (d % 2) ? -1.0 : 1.0;
                    q.bc.s(d) = sg * p.bc.e(d);
                    q.bc.e(d) = sg * p.bc.s(d);
                }
                auto sq = splineForRelation(c, r, *s, q);
                // expected pieces: q_i(t) = p_{N-1-i}(T - t)
                MatrixXld Cexp(C.rows(), C.cols());
                for (int i = 0; i < p.N; ++i)
                {
                    int src = p.N - 1 - i;
                    LD T = p.T[src];
                    for (int j = 0; j < p.dim; ++j)
                        for (int m = 0; m < nc; ++m)
                        {
                            LD v = 0, binom = 1; // C(k,m) for k=m is 1
                            for (int k = m; k < nc; ++k)
                            {
                                v += Cld(src * nc + k, j) * binom * powl(T, k - m);
                                binom = binom * (LD)(k + 1) / (LD)(k + 1 - m);
                            }
                            Cexp(i * nc + m, j) = (m % 2) ? -v : v;
                        }
                }
                c.check("C14.reversal.trajectory", coeffError(q, sq->coeffs(), Cexp, 1e-3), 1e-7, gkey(p, "reversal"));
                c.check("C14.reversal.energy", scaledDiff(sq->energy(), E, (double)Eabs), 1e-8, gkey(p, "reversal"));
                Grads e2 = sq->energyGrad(false), ex = eg;
                for (int i = 0; i < p.N; ++i)
                    ex.times(i) = eg.times(p.N - 1 - i);
                for (int i = 0; i < p.N - 1; ++i)
                    ex.inner.row(i) = eg.inner.row(p.N - 2 - i);
                for (int d = 0; d <= 3; ++d)
                {
                    double sg = (d % 2) ? -1.0 : 1.0;
                    ex.start.row(d) = sg * eg.end.row(d);
                    ex.end.row(d) = sg * eg.start.row(d);
                }
                // the mirrored gradient components are compared against their own scale plus the FD-style global floor
                GroupAcc acc;
                for (auto &x : enumerateInputs(q))
                    acc.add(x.group, gradAt(e2, x), gradAt(ex, x), 1e-9 * (double)Eabs / inputScale(q, x));
                double w = 0;
                for (int g = 0; g < kNumGroups; ++g)
                    if (acc.seen[g])
                        w = std::max(w, acc.value(g));
                c.check("C14.reversal.mirrored_energy_gradients", w, 1e-6, gkey(p, "reversal"));
                // the same through gradient propagation (the energy partials of each spline propagated by that spline)
                {
                    Grads pr = s->propagate(s->partialC(false), s->partialT(false), false);
                    Grads pr2 = sq->propagate(sq->partialC(false), sq->partialT(false), false);
                    Grads px = pr;
                    for (int i = 0; i < p.N; ++i)
                        px.times(i) = pr.times(p.N - 1 - i);
                    for (int i = 0; i < p.N - 1; ++i)
                        px.inner.row(i) = pr.inner.row(p.N - 2 - i);
                    for (int d = 0; d <= 3; ++d)
                    {
                        double sg = (d % 2) ? -1.0 : 1.0;
                        px.start.row(d) = sg * pr.end.row(d);
                        px.end.row(d) = sg * pr.start.row(d);
                    }
                    GroupAcc acc2;
                    for (auto &x : enumerateInputs(q))
                        acc2.add(x.group, gradAt(pr2, x), gradAt(px, x), 1e-9 * (double)Eabs / inputScale(q, x));
                    double w2 = 0;
                    for (int g = 0; g < kNumGroups; ++g)
                        if (acc2.seen[g])
                            w2 = std::max(w2, acc2.value(g));
                    c.check("C14.reversal.mirrored_propagated_gradients", w2, 1e-6, gkey(p, "reversal"));
                }
                c.event("relation.reversal");
                break;
            }
            }
        }
}

// ------------------------------------------------------------------ C10 (spline part)
struct Observables
{
    MatrixXd C;
    std::vector<double> cum, bp;
    double E = 0, t0 = 0, te = 0, dur = 0;
    Grads eg, pg1, pg2;
    MatrixXd pc;
    VectorXd pt;
    MatrixXd evals;
    int nseg = 0;
};
inline Observables observe(ISpline &s, const Upstream &u, const std::vector<double> &ts, bool withPropagate)
{
    Observables o;
    o.C = s.coeffs();
    o.cum = s.cumTimes();
    o.bp = s.breakpoints();
    o.E = s.energy();
    o.t0 = s.startTime();
    o.te = s.endTime();
    o.dur = s.duration();
    o.nseg = s.numSegments();
    o.eg = s.energyGrad(false);
    o.pc = s.partialC(false);
    o.pt = s.partialT(false);
    if (withPropagate)
    {
        o.pg1 = s.propagate(u.gC, u.gT, false);
        o.pg2 = s.propagateIntoStale(o.pc, o.pt, 3); // reference overload into an object that holds another problem's result
    }
    const int nc = s.trajNumCoeffs();
    o.evals.resize(ts.size() * (nc + 1), s.dim());
    int row = 0;
    for (double t : ts)
        for (int k = 0; k <= nc; ++k)
            o.evals.row(row++) = s.trajEval(t, k).transpose();
    return o;
}
inline std::string compareObs(const Observables &a, const Observables &b, bool withPropagate)
{
    if (!bitEqualMat(a.C, b.C))
        return "coefficients";
    if (!bitEqualVec(a.cum, b.cum) || !bitEqualVec(a.bp, b.bp))
        return "knot times";
    if (!bitEqual(a.E, b.E))
        return "energy";
    if (!bitEqual(a.t0, b.t0) || !bitEqual(a.te, b.te) || !bitEqual(a.dur, b.dur) || a.nseg != b.nseg)
        return "time bookkeeping";
    if (!gradsBitEqual(a.eg, b.eg))
        return "energy gradients";
    if (!bitEqualMat(a.pc, b.pc) || !bitEqualMat(a.pt, b.pt))
        return "energy partials";
    if (withPropagate && (!gradsBitEqual(a.pg1, b.pg1) || !gradsBitEqual(a.pg2, b.pg2)))
        return "propagated gradients";
    if (!bitEqualMat(a.evals, b.evals))
        return "evaluations";
    return "";
}
inline bool obsFinite(const Observables &o, bool withPropagate)
{
    bool f = allFinite(o.C) && std::isfinite(o.E) && gradsFinite(o.eg) && allFinite(o.pc) && allFinite(o.pt) && allFinite(o.evals);
    if (withPropagate)
        f = f && gradsFinite(o.pg1) && gradsFinite(o.pg2);
    return f;
}

inline void runC10(Ctx &c)
{
    const bool thorough = c.a.tier == "thorough";
    std::vector<std::pair<int, int>> ods;
    static const std::vector<int> qd{1, 3, 5};
    for (auto od : splineCells())
        if (selected(c.a.orders, od.first) && selected(c.a.dims, od.second) && (!c.a.dims.empty() || thorough || selected(qd, od.second)))
            ods.push_back(od);
    const uint64_t per = c.count(thorough ? 400 : 40);
    for (auto od : ods)
    {
        std::string cell = "o" + std::to_string(od.first) + "d" + std::to_string(od.second);
        if (!c.cellSelected(cell))
            continue;
        for (uint64_t idx = 0; idx < per; ++idx)
        {
            if (!c.mine(idx))
                continue;
            Rng r = c.beginCase(cell, idx);
            const int len = r.range(5, thorough ? 60 : 30);
            std::vector<std::string> trace;
            c.dump = [&]()
            {
                std::string s = "[";
                for (size_t i = 0; i < trace.size(); ++i)
                    s += (i ? "," : "") + jstr(trace[i]);
                return JObj().raw("history", s + "]").done();
            };
            auto L = makeSpline(od.first, od.second);
            // N sequences that grow, shrink and pass through 1 and 2
            static const int walk[] = {9, 1, 2, 7, 2, 1, 10, 3, 1, 33, 2, 5, 1, 12, 2, 31, 4};
            int wpos = r.range(0, 16);
            Problem cur;
            bool have = false;
            int curEntry = 0;
            std::vector<double> curTp;
            uint64_t hh = 0;
            for (int step = 0; step < len; ++step)
            {
                int op = have ? r.range(0, 9) : 0;
                if (op <= 3)
                {
                    int N = r.coin(0.7) ? walk[(wpos++) % 17] : r.range(1, 12);
                    if (!thorough && N > 12)
                        N = 12;
                    if (have && r.coin(0.45))
                    {
                        // partly unchanged inputs (as in an optimisation loop): same durations, same waypoints, the very
                        // same problem again, or the same segment count with everything new
                        Problem old = cur;
                        int k = r.range(0, 4);
                        cur = genProblem(r, od.first, od.second, old.N);
                        if (k == 0)
                        {
                            cur.T = old.T;
                            if (r.coin())
                                cur.t0 = old.t0; // else: the same durations from another start time
                        }
                        else if (k == 4)
                        {
                            cur = old;
                            double eps = std::pow(10.0, -(double)r.range(6, 12));
                            const int how = r.range(0, 2);
                            if (how == 0)
                                for (auto &t : cur.T)
                                    t *= 1.0 + eps * r.uni(-1, 1);
                            else if (how == 1)
                                cur.P(r.range(0, cur.N), r.range(0, cur.dim - 1)) += eps * (r.coin() ? 1 : -1);
                            else // tiny compared with the norm of ALL waypoints (a relative change detector would call it "unchanged")
                                cur.P(r.range(0, cur.N), r.range(0, cur.dim - 1)) += std::max(cur.P.norm(), 1e-300) * std::pow(10.0, -(double)r.range(13, 15)) * (r.coin() ? 1 : -1);
                        }
                        else if (k == 1)
                        {
                            cur.P = old.P;
                            cur.bc = old.bc;
                        }
                        else if (k == 2)
                            cur = old;
                        else if (k == 3 && r.coin())
                        {
                            // the same horizon (start, bitwise the same end, segment count) split differently
                            cur.T = old.T;
                            cur.t0 = old.t0;
                            if (resplitSameHorizon(r, cur))
                                c.event("op.update_same_horizon_other_split");
                        }
                        c.event("op.update_partly_unchanged");
                    }
                    else
                        cur = genProblem(r, od.first, od.second, N);
                    curEntry = r.range(0, 1);
                    const int how = have ? r.range(0, 11) : 0;
                    if (how == 9 || how == 10)
                    {
                        // boundary argument omitted = zero boundary state, whatever the object held before
                        cur.bc.setZero(cur.dim);
                        curEntry += 2;
                    }
                    hh = mix64(hh, hashProblem(cur) + curEntry);
                    if (how == 11 && step > 0)
                    {
                        // warm restart / re-timing: the object's own getters passed straight back with a new start time
                        Problem old2;
                        old2.order = od.first;
                        old2.dim = od.second;
                        old2.T = L->timeSegments();
                        old2.N = (int)old2.T.size();
                        old2.P = L->spacePoints();
                        old2.bc = L->boundary();
                        old2.t0 = r.coin(0.3) ? L->startTime() : r.uni(-5, 5);
                        cur = old2;
                        curEntry = 0;
                        L->updateFromOwnGetters(0, cur.t0);
                        trace.push_back("update(own getters) N=" + std::to_string(cur.N));
                        c.event("op.update_from_own_getters");
                    }
                    else if (curEntry == 2)
                    {
                        L->updateDurDefaultBC(cur.T, cur.P, cur.t0);
                        trace.push_back("update_durations (boundary omitted) N=" + std::to_string(cur.N));
                        c.event("op.update_boundary_omitted");
                    }
                    else if (curEntry == 3)
                    {
                        curTp = cur.timePoints();
                        L->updatePtsDefaultBC(curTp, cur.P);
                        trace.push_back("update_timepoints (boundary omitted) N=" + std::to_string(cur.N));
                        c.event("op.update_boundary_omitted");
                    }
                    else if (curEntry == 0)
                    {
                        L->updateDur(cur.T, cur.P, cur.t0, cur.bc);
                        trace.push_back("update_durations N=" + std::to_string(cur.N));
                    }
                    else
                    {
                        curTp = cur.timePoints();
                        L->updatePts(curTp, cur.P, cur.bc);
                        trace.push_back("update_timepoints N=" + std::to_string(cur.N));
                    }
                    have = true;
                    c.event("op.update");
                    if (cur.N <= 6 && curEntry <= 1 && r.coin(0.04))
                    {
                        // a long run of updates with no query in between (an optimisation that only updates the object), of a
                        // length at which small counters wrap
                        const int burst = r.pick(std::vector<int>{255, 256, 257, 512});
                        for (int q = 0; q < burst; ++q)
                        {
                            cur.P(r.range(0, cur.N), r.range(0, cur.dim - 1)) += 0.01 * r.normal();
                            if (curEntry == 0)
                                L->updateDur(cur.T, cur.P, cur.t0, cur.bc);
                            else
                                L->updatePts(curTp, cur.P, cur.bc);
                        }
                        trace.push_back("burst of " + std::to_string(burst) + " updates without a query");
                        c.event("op.update_burst");
                    }
                }
                else
                {
                    // read-only queries in random order; they must not influence anything later
                    switch (op)
                    {
                    case 4:
                        (void)L->energy();
                        trace.push_back("energy");
                        break;
                    case 5:
                        (void)L->energyGrad(r.coin());
                        trace.push_back("energyGrad");
                        break;
                    case 6:
                    {
                        Upstream u2 = genUpstream(r, cur);
                        (void)L->propagate(u2.gC, u2.gT, r.coin());
                        trace.push_back("propagate(" + u2.kind + ")");
                        break;
                    }
                    case 7:
                        (void)L->partialC(r.coin());
                        (void)L->partialT(r.coin());
                        trace.push_back("partials");
                        break;
                    case 8:
                    {
                        std::vector<double> cu = L->cumTimes();
                        (void)L->trajEval(r.uni(cu.front() - 1, cu.back() + 1), r.range(0, cur.ncoef()));
                        trace.push_back("evaluate");
                        break;
                    }
                    default:
                    {
                        auto cp = L->clone();
                        (void)cp->energy();
                        trace.push_back("copy+query");
                        break;
                    }
                    }
                    c.event("op.query");
                }
                // shadow comparison after every op
                Upstream u = genUpstream(r, cur, 0);
                std::vector<double> cu = cur.timePoints();
                std::vector<double> ts{cu.front() - 1.0, cu.front(), cu.back(), cu.back() + 2.0};
                for (int q = 0; q < 3; ++q)
                    ts.push_back(r.uni(cu.front(), cu.back()));
                auto F = curEntry == 0 ? makeSplineDur(cur) : curEntry == 1 ? makeSplinePts(cur) : curEntry == 2 ? (r.coin() ? makeSplineDurDefaultBC(cur) : makeSplineDur(cur)) : (r.coin() ? makeSplinePtsDefaultBC(cur) : makeSplinePts(cur));
                const bool wp = r.coin(0.7);
                Observables oF = observe(*F, u, ts, wp);
                Observables oL = observe(*L, u, ts, wp);
                std::string diff = compareObs(oL, oF, wp);
                c.require("C10.reused_equals_fresh_bitwise", diff.empty(), gkey(cur, "history"), "differs in: " + diff + " after step " + std::to_string(step));
                c.require("C10.outputs_finite", obsFinite(oL, wp), gkey(cur, "finite"));
                // shapes follow the latest problem even when the caller's output object held another problem's result
                if (wp)
                    c.require("C10.result_shapes_follow_latest_problem", gradsShapeOk(oL.pg1, cur) && gradsShapeOk(oL.pg2, cur) && gradsShapeOk(oL.eg, cur), gkey(cur, "shape"));
                // a second observation of the reused object is identical to the first (queries do not change results)
                Observables oL2 = observe(*L, u, ts, wp);
                c.require("C10.queries_are_read_only", compareObs(oL2, oL, wp).empty(), gkey(cur, "history"), "after step " + std::to_string(step));
                c.event("shadow_comparisons");
                if (c.case_failed)
                    break;
            }
            c.nontrivial(hh);
            if (idx < 1)
                c.wantSample();
        }
    }
}
// ------------------------------------------------------------------ results computed during static initialisation
// A spline built and queried by a namespace-scope object's constructor (before main) gives what the same calls give later.
inline void runStaticInit(Ctx &c)
{
    const std::string prop = c.a.prop;
    for (auto od : splineCells())
    {
        if (!selected(c.a.orders, od.first) || !selected(c.a.dims, od.second))
            continue;
        std::string cell = "static_init_o" + std::to_string(od.first) + "d" + std::to_string(od.second);
        if (!c.cellSelected(cell) || !c.mine(0))
            continue;
        (void)c.beginCase(cell, 0);
        const StaticInitRecord &rec = splineStaticInit(od.first, od.second);
        auto s = makeSplineDur(rec.p);
        c.dump = [&]() { return dumpProblem(rec.p); };
        bool ok = true;
        if (prop == "C04")
            ok = bitEqual(rec.E, s->energy());
        else if (prop == "C05")
            ok = gradsBitEqual(rec.pg, s->propagate(rec.gC, rec.gT, false));
        else if (prop == "C06")
            ok = gradsBitEqual(rec.eg, s->energyGrad(false));
        else
        {
            ok = bitEqualMat(rec.C, s->coeffs());
            const double ts[3] = {rec.p.t0, rec.p.t0 + 1.1, rec.p.t0 + 2.9};
            int row = 0;
            for (double t : ts)
                for (int k = 0; k < 3; ++k)
                    ok = ok && bitEqualMat(rec.evals.row(row++).transpose(), s->trajEval(t, k));
        }
        c.require(prop + ".result_during_static_initialisation_equals_later_result", ok, gkey(rec.p, "static_init"));
        c.event("static_initialisation_probes");
    }
}

// ------------------------------------------------------------------ distinct objects in concurrent threads
// Every thread owns its problems and its spline objects; the caller shares nothing.  What a property states for every
// input holds whatever other, unrelated spline computations the process is running at the same time: the results
// obtained under concurrency are compared bitwise with the same computations done alone afterwards, and the same
// workload runs under ThreadSanitizer (hidden shared state: function-local statics, static scratch buffers, ...).
inline bool obsFieldsEqual(const Observables &a, const Observables &b, const std::string &prop)
{
    if (prop == "C04")
        return bitEqual(a.E, b.E);
    if (prop == "C05")
        return gradsBitEqual(a.pg1, b.pg1) && gradsBitEqual(a.pg2, b.pg2);
    if (prop == "C06")
        return gradsBitEqual(a.eg, b.eg) && bitEqualMat(a.pc, b.pc) && bitEqualMat(a.pt, b.pt);
    // C01 / C02: the constructed trajectory and its evaluations
    return bitEqualMat(a.C, b.C) && bitEqualVec(a.cum, b.cum) && bitEqualVec(a.bp, b.bp) && bitEqual(a.t0, b.t0) && bitEqual(a.te, b.te) && a.nseg == b.nseg && bitEqualMat(a.evals, b.evals);
}
inline void runThreadsSpline(Ctx &c)
{
    const bool thorough = c.a.tier == "thorough";
    const std::string prop = c.a.prop;
    const int T = 4;
    const uint64_t per = c.count(thorough ? 40 : 8);
    for (auto od : splineCells())
    {
        if (!selected(c.a.orders, od.first) || !selected(c.a.dims, od.second))
            continue;
        std::string cell = "threads_o" + std::to_string(od.first) + "d" + std::to_string(od.second);
        if (!c.cellSelected(cell))
            continue;
        for (uint64_t idx = 0; idx < per; ++idx)
        {
            if (!c.mine(idx))
                continue;
            Rng r = c.beginCase(cell, idx);
            // equal segment counts in half of the cases: a hidden shared buffer is then overwritten rather than re-allocated
            const bool sameN = r.coin();
            const int N0 = r.range(1, 12);
            std::vector<Problem> ps(T);
            std::vector<Upstream> us(T);
            std::vector<std::vector<double>> tss(T);
            uint64_t hh = 0;
            for (int t = 0; t < T; ++t)
            {
                ps[t] = genProblem(r, od.first, od.second, sameN ? N0 : r.range(1, 12));
                us[t] = genUpstream(r, ps[t], 0);
                std::vector<double> cu = ps[t].timePoints();
                tss[t] = {cu.front(), cu.back(), r.uni(cu.front(), cu.back()), r.uni(cu.front(), cu.back())};
                hh = mix64(hh, hashProblem(ps[t]));
            }
            c.dump = [&]() { return JObj().i("threads", T).raw("problem_of_thread_0", dumpProblem(ps[0])).done(); };
            c.nontrivial(hh);
            if (idx < 1)
                c.wantSample();
            const int reps = thorough ? 60 : 25;
            std::vector<Observables> first(T);
            std::vector<int> stable(T, 1);
            std::atomic<int> ready{0};
            std::vector<std::thread> th;
            for (int t = 0; t < T; ++t)
                th.emplace_back([&, t]()
                                {
                                    ready.fetch_add(1);
                                    while (ready.load() < T)
                                        std::this_thread::yield();
                                    std::unique_ptr<ISpline> reused;
                                    for (int rep = 0; rep < reps; ++rep)
                                    {
                                        std::unique_ptr<ISpline> fresh;
                                        ISpline *s = nullptr;
                                        if (rep % 3 == 2 && reused)
                                        {
                                            reused->updateDur(ps[t].T, ps[t].P, ps[t].t0, ps[t].bc);
                                            s = reused.get();
                                        }
                                        else
                                        {
                                            fresh = makeSplineDur(ps[t]);
                                            s = fresh.get();
                                        }
                                        Observables o = observe(*s, us[t], tss[t], true);
                                        if (rep == 0)
                                            first[t] = o;
                                        else if (!obsFieldsEqual(o, first[t], prop))
                                            stable[t] = 0;
                                        if (fresh && rep % 3 == 0)
                                            reused = std::move(fresh);
                                    } });
            for (auto &x : th)
                x.join();
            bool allStable = true, allEqual = true;
            for (int t = 0; t < T; ++t)
            {
                auto F = makeSplineDur(ps[t]);
                Observables oF = observe(*F, us[t], tss[t], true);
                allStable = allStable && stable[t];
                allEqual = allEqual && obsFieldsEqual(first[t], oF, prop);
            }
            c.require(prop + ".concurrent_unrelated_objects_same_result_as_alone", allEqual, gkey(ps[0], "threads"));
            c.require(prop + ".concurrent_unrelated_objects_repeatable", allStable, gkey(ps[0], "threads"));
            c.event("thread_rounds");
            c.event("concurrent_object_computations", (uint64_t)T * reps);
        }
    }
}
} // namespace vf
