// Optimizer monitors, part 1: C07 C08 C09.
#pragma once
#include "opt_common.hpp"

namespace vf
{
struct OCell
{
    int order, dim, N, combo;
    std::string name;
};
inline std::vector<OCell> optCellList(const Ctx &c, const std::vector<int> &nlist, const std::vector<int> &combos)
{
    std::vector<OCell> r;
    for (auto od : optCells())
    {
        if (!selected(c.a.orders, od.first) || !selected(c.a.dims, od.second))
            continue;
        for (int N : nlist)
            for (int cb : combos)
            {
                OCell cl{od.first, od.second, N, cb, ""};
                cl.name = "o" + std::to_string(od.first) + "d" + std::to_string(od.second) + "N" + std::to_string(N) + "m" + std::to_string(cb);
                if (c.cellSelected(cl.name))
                    r.push_back(cl);
            }
    }
    return r;
}

// The assumption "user functors follow the protocol" is observed: gradient of the generated program vs a long-double
// finite difference of its own value.
inline double programSelfCheck(Rng &r, const CostProgram &prog)
{
    const int d = prog.dim;
    double worst = 0;
    // running cost
    {
        double st[5][kMaxDim] = {};
        static const double mags[5] = {1.0, 1.0, 2.0, 5.0, 10.0};
        for (int k = 0; k < 5; ++k)
            for (int j = 0; j < d; ++j)
                st[k][j] = mags[k] * r.normal();
        double tg = r.uni(-3, 8);
        int seg = r.range(0, 9);
        double g[5][kMaxDim] = {};
        double gt = 0;
        prog.runCost(0.1, tg, seg, st[0], st[1], st[2], st[3], st[4], g[0], g[1], g[2], g[3], g[4], gt);
        auto val = [&](int k, int j, LD delta, LD dtg) -> LD
        {
            LD s2[5][kMaxDim];
            for (int a = 0; a < 5; ++a)
                for (int b = 0; b < kMaxDim; ++b)
                    s2[a][b] = st[a][b];
            if (k >= 0)
                s2[k][j] += delta;
            return prog.runValueLD((LD)tg + dtg, seg, s2[0], s2[1], s2[2], s2[3], s2[4]);
        };
        LD scaleAll = fabsl(val(-1, 0, 0, 0)) + 1;
        for (int k = 0; k < 5; ++k)
            for (int j = 0; j < d; ++j)
            {
                LD h = 1e-4L * mags[k];
                LD fd = (-val(k, j, 2 * h, 0) + 8 * val(k, j, h, 0) - 8 * val(k, j, -h, 0) + val(k, j, -2 * h, 0)) / (12 * h);
                worst = std::max(worst, (double)(fabsl(fd - (LD)g[k][j]) / (scaleAll / mags[k])));
            }
        LD h = 1e-4L;
        LD fd = (-val(-1, 0, 0, 2 * h) + 8 * val(-1, 0, 0, h) - 8 * val(-1, 0, 0, -h) + val(-1, 0, 0, -2 * h)) / (12 * h);
        worst = std::max(worst, (double)(fabsl(fd - (LD)gt) / scaleAll));
    }
    // time cost
    {
        int n = r.range(1, 7);
        std::vector<double> T(n);
        for (auto &t : T)
            t = r.uni(0.2, 3);
        VectorXd g(n);
        prog.timeCost(T, g);
        LD sc = fabsl(prog.timeValueLD(T)) + 1;
        for (int i = 0; i < n; ++i)
        {
            auto T2 = T;
            double h = 1e-4;
            LD v[4];
            const double ks[4] = {2, 1, -1, -2};
            for (int q = 0; q < 4; ++q)
            {
                T2[i] = T[i] + ks[q] * h;
                v[q] = prog.timeValueLD(T2);
            }
            LD fd = (-v[0] + 8 * v[1] - 8 * v[2] + v[3]) / (12 * (LD)h);
            worst = std::max(worst, (double)(fabsl(fd - (LD)g(i)) / sc));
        }
    }
    // waypoint cost
    {
        int n = r.range(2, 6);
        MatrixXd q(n, d), g;
        for (int i = 0; i < n; ++i)
            for (int j = 0; j < d; ++j)
                q(i, j) = r.normal();
        prog.wpCost(q, g);
        LD sc = fabsl(prog.wpValueLD(q)) + 1;
        for (int i = 0; i < n; ++i)
            for (int j = 0; j < d; ++j)
            {
                MatrixXd q2 = q;
                double h = 1e-4;
                LD v[4];
                const double ks[4] = {2, 1, -1, -2};
                for (int k = 0; k < 4; ++k)
                {
                    q2(i, j) = q(i, j) + ks[k] * h;
                    v[k] = prog.wpValueLD(q2);
                }
                LD fd = (-v[0] + 8 * v[1] - 8 * v[2] + v[3]) / (12 * (LD)h);
                worst = std::max(worst, (double)(fabsl(fd - (LD)g(i, j)) / sc));
            }
    }
    return worst;
}

inline double evalFresh(const OptCase &oc, const VectorXd &x, bool threeCosts, VectorXd *gradOut = nullptr)
{
    OptRig rig = buildRig(oc);
    if (!initRig(rig, oc))
        throw std::runtime_error("evalFresh: reference state rejected");
    VectorXd g;
    EvalOpts eo;
    eo.threeCosts = threeCosts;
    CostProgram p = oc.prog;
    p.rec = nullptr;
    double c = rig.opt->evaluate(x, g, p, eo);
    if (gradOut)
        *gradOut = g;
    return c;
}

struct XGroupAcc
{
    std::map<std::string, GroupAcc> m; // uses slot 0 of GroupAcc
    void add(const std::string &g, double an, double fd, double noise) { m[g].add(0, an, fd, noise); }
};

// FD of the returned cost over the decision vector, group by group
inline void fdOverX(Ctx &c, const std::string &mon, const OptCase &oc, const OptRig &rig, const VectorXd &x, const VectorXd &grad, bool threeCosts,
                    Rng &r, int maxComponents, double Cabs)
{
    int total = 0;
    auto L = layoutModel(oc, *rig.env, rig.smH, &total);
    struct Comp
    {
        int idx;
        const LayoutEntry *e;
    };
    std::vector<Comp> comps;
    for (auto &e : L)
        for (int q = 0; q < e.size; ++q)
            comps.push_back({e.offset + q, &e});
    if ((int)comps.size() > maxComponents)
    {
        r.shuffle(comps);
        std::vector<Comp> keep;
        std::set<std::string> have;
        for (auto &cp : comps)
            if (!have.count(xGroup(*cp.e)))
            {
                have.insert(xGroup(*cp.e));
                keep.push_back(cp);
            }
        for (auto &cp : comps)
            if ((int)keep.size() < maxComponents)
                keep.push_back(cp);
        comps = keep;
    }
    XGroupAcc acc;
    for (auto &cp : comps)
    {
        double sc = std::max(1.0, std::fabs(x(cp.idx)));
        double h = 1e-3 * sc;
        const double ks[4] = {2, 1, -1, -2};
        double fmax = 0;
        auto stencil = [&](double hh) -> double
        {
            double vals[4];
            for (int q = 0; q < 4; ++q)
            {
                VectorXd x2 = x;
                x2(cp.idx) += ks[q] * hh;
                vals[q] = evalFresh(oc, x2, threeCosts);
                fmax = std::max(fmax, std::fabs(vals[q]));
            }
            return (-vals[0] + 8 * vals[1] - 8 * vals[2] + vals[3]) / (12 * hh);
        };
        // two step sizes: their difference estimates the truncation error of the oracle itself (the cost may oscillate
        // quickly in a decision variable); the finer value is used, the estimate widens the noise band
        double fdCoarse = stencil(h), fd = stencil(h / 2);
        double trunc = std::fabs(fdCoarse - fd);
        // (cost programs with a deadline or a time window are only C2 in time: the 4th-order error law, and with it the
        // halving estimate, is then optimistic when a sample crosses an edge inside the stencil; the band is widened)
        const bool c2only = oc.prog.wn_w != 0 || oc.prog.dl_w != 0;
        double noise = (1e5 * 2.2e-16 / 0.5e-3 + 1e-8) * (Cabs + fmax) / sc + (c2only ? 6 : 2) * trunc;
        if (trunc > 1e-6 * std::fabs(fd))
            c.event("fd_oracle_truncation_above_1e-6");
        acc.add(xGroup(*cp.e), grad(cp.idx), fd, noise);
        c.event("fd_components");
        if (getenv("VF_DEBUG"))
            fprintf(stderr, "  x[%d] %s analytic=%.12g fd=%.12g noise=%.3g\n", cp.idx, xGroup(*cp.e).c_str(), grad(cp.idx), fd, noise);
    }
    for (auto &kv : acc.m)
        if (kv.second.maxmag[0] > 0)
            c.event(kv.second.noiseMax[0] < 0.99e-4 * kv.second.maxmag[0] ? "sensitivity_probe_1e-4.would_detect" : "sensitivity_probe_1e-4.masked_by_noise_band");
    for (auto &kv : acc.m)
        c.check(mon + "." + kv.first, kv.second.value(0), 1e-6, okey(oc, "gradient", kv.first));
}

// ------------------------------------------------------------------ C07
inline void runC07(Ctx &c)
{
    const bool thorough = c.a.tier == "thorough";
    static const std::vector<int> nq{1, 2, 3, 4, 6}, nt{1, 2, 3, 4, 5, 6, 8, 12};
    auto cells = optCellList(c, thorough ? nt : nq, {0, 1, 2});
    for (auto &cl : cells)
    {
        const uint64_t per = c.count(thorough ? (cl.N <= 3 ? 40 : 12) : 3);
        for (uint64_t idx = 0; idx < per; ++idx)
        {
            if (!c.mine(idx))
                continue;
            Rng r = c.beginCase(cl.name, idx);
            // flags: thorough walks all 256 bytes at N<=3; quick samples (the bytes are spread over cells by construction)
            int fb = -1;
            if (thorough && cl.N <= 3)
                fb = (int)((idx * 7 + cl.order * 13 + cl.dim * 29 + cl.N * 53 + cl.combo * 101) % 256);
            OptCase oc = genOptCase(r, cl.order, cl.dim, cl.N, cl.combo, fb);
            OptRig rig = buildRig(oc);
            VectorXd x;
            c.dump = [&]() { return dumpOptCase(oc, &x); };
            if (!c.require("C07.reference_state_accepted", initRig(rig, oc), okey(oc, "setup")))
                continue;
            c.event(std::string("optimizer_route.") + routeViaCopy(r, rig));
            x = genDecisionVector(r, oc, rig);
            if (oc.exactZeros && r.coin(0.7))
            {
                x = initialGuessModel(oc, *rig.env, rig.tmH, rig.smH); // exact zeros of the data survive in x
                c.event("decision_vector.at_initial_guess_with_exact_zeros");
            }
            c.nontrivial(hashOptCase(oc, &x));
            if (idx < 1)
                c.wantSample();
            c.check("C07.program_gradients_follow_protocol", programSelfCheck(r, oc.prog), 1e-7, okey(oc, "program_self_check"));
            const bool three = r.coin(0.7);
            EvalOpts eo;
            eo.threeCosts = three;
            if (r.coin(0.5))
                eo.ws = rig.env->newWorkspace();
            eo.executor = r.range(0, 1);
            VectorXd grad;
            if (r.coin(0.5))
            {
                // the judged evaluation is not the first one on this optimizer / workspace
                VectorXd xPrev = genDecisionVector(r, oc, rig), gPrev;
                const bool other = r.coin();
                if (other)
                {
                    rig.opt->setRho(r.coin() ? 0.0 : r.uni(0.05, 1.0));
                    rig.opt->setSteps(r.range(1, 20));
                }
                EvalOpts eoPrev = eo;
                if (r.coin(0.5))
                    eoPrev.threeCosts = !eo.threeCosts; // the earlier call went through the other overload (with / without a waypoint cost)
                (void)rig.opt->evaluate(r.coin(0.2) ? x : xPrev, gPrev, oc.prog, eoPrev);
                c.event(eoPrev.threeCosts != eo.threeCosts ? "evaluation.after_call_through_other_overload" : "evaluation.after_call_through_same_overload");
                if (other)
                {
                    rig.opt->setRho(oc.rho);
                    rig.opt->setSteps(oc.K);
                }
                c.event("evaluation.on_used_workspace");
            }
            if (r.coin(0.3))
            {
                VectorXd xa = r.coin() ? x : genDecisionVector(r, oc, rig);
                (void)abortedEvaluation(c, r, *rig.opt, oc, eo, xa);
            }
            if (r.coin(0.3))
            {
                // executors need not visit the segments in ascending order
                eo.executor = 2;
                eo.perm.resize(cl.N);
                for (int i = 0; i < cl.N; ++i)
                    eo.perm[i] = i;
                if (r.coin())
                    std::reverse(eo.perm.begin(), eo.perm.end());
                else
                    r.shuffle(eo.perm);
                eo.threeCosts = true; // harness executors go through the primary overload
                c.event("executor.permuted");
            }
            const bool threeJudged = eo.threeCosts;
            double cost = rig.opt->evaluate(x, grad, oc.prog, eo);
            int total = 0;
            layoutModel(oc, *rig.env, rig.smH, &total);
            if (!c.require("C07.gradient_size", grad.size() == total && (int)x.size() == total, okey(oc, "shape")))
                continue;
            c.require("C07.finite", std::isfinite(cost) && allFinite(grad), okey(oc, "finite"));
            c.event(std::string("overload.") + (threeJudged ? "three_costs" : "two_costs"));
            c.event("combo." + std::to_string(oc.combo));
            c.event(oc.rho > 0 ? "rho.positive" : "rho.zero");
            c.event("K." + std::to_string(oc.K));
            // the value the FD oracle differentiates is the value evaluate itself returns (fresh object, same x)
            VectorXd g2;
            double cost2 = evalFresh(oc, x, threeJudged, &g2);
            c.require("C07.fresh_object_same_result", bitEqual(cost, cost2) && bitEqualMat(grad, g2), okey(oc, "history"));
            Problem dec = decodeModel(oc, *rig.env, rig.tmH, rig.smH, x);
            CostBreakdown cb = recomputeCost(oc, dec, threeJudged);
            fdOverX(c, "C07.fd", oc, rig, x, grad, threeJudged, r, thorough ? 200 : 40, (double)cb.abssum);
        }
    }
}

// ------------------------------------------------------------------ C08
inline void runC08(Ctx &c)
{
    const bool thorough = c.a.tier == "thorough";
    static const std::vector<int> nq{1, 2, 3, 5, 8}, nt{1, 2, 3, 4, 5, 6, 8, 12, 20};
    auto cells = optCellList(c, thorough ? nt : nq, {0, 1, 2});
    for (auto &cl : cells)
    {
        const uint64_t per = c.count(thorough ? 60 : 6);
        for (uint64_t idx = 0; idx < per; ++idx)
        {
            if (!c.mine(idx))
                continue;
            Rng r = c.beginCase(cl.name, idx);
            OptCase oc = genOptCase(r, cl.order, cl.dim, cl.N, cl.combo);
            oc.ref.t0 = genStartTime(r);
            if (std::fabs(oc.ref.t0) > 1e5)
                oc.ref.t0 = r.uni(-1e3, 1e3);
            OptRig rig = buildRig(oc);
            VectorXd x;
            c.dump = [&]() { return dumpOptCase(oc, &x); };
            if (!c.require("C08.reference_state_accepted", initRig(rig, oc), okey(oc, "setup")))
                continue;
            c.event(std::string("optimizer_route.") + routeViaCopy(r, rig));
            x = genDecisionVector(r, oc, rig);
            c.nontrivial(hashOptCase(oc, &x));
            if (idx < 1)
                c.wantSample();
            Recorder rec;
            CostProgram prog = oc.prog;
            prog.rec = &rec;
            const bool three = r.coin(0.7);
            EvalOpts eo;
            eo.threeCosts = three;
            if (three && r.coin(0.3))
            {
                // a user executor that visits the segments in another order (what a sample carries must not depend on it)
                eo.executor = 2;
                for (int i = 0; i < cl.N; ++i)
                    eo.perm.push_back(i);
                if (r.coin())
                    std::reverse(eo.perm.begin(), eo.perm.end());
                else
                    r.shuffle(eo.perm);
                c.event("executor.permuted");
            }
            else if (three && cl.N >= 2 && r.coin(0.25))
            {
                // segments processed at the same time on several threads (spawned per call, or a pool older than the call)
                eo.executor = r.coin() ? 3 : 5;
                eo.threads = r.range(2, 4);
                eo.partitionSeed = r.u64();
                c.event(eo.executor == 3 ? "executor.threads_per_call" : "executor.persistent_pool");
            }
            if (r.coin(0.4))
                eo.ws = rig.env->newWorkspace();
            VectorXd grad;
            if (r.coin(0.25))
            {
                VectorXd xa = r.coin() ? x : genDecisionVector(r, oc, rig);
                (void)abortedEvaluation(c, r, *rig.opt, oc, eo, xa);
            }
            if (r.coin(0.5))
            {
                VectorXd xPrev = genDecisionVector(r, oc, rig), gPrev;
                const bool other = r.coin();
                if (other)
                {
                    rig.opt->setRho(r.coin() ? 0.0 : r.uni(0.05, 1.0));
                    rig.opt->setSteps(r.range(1, 20));
                }
                EvalOpts eoPrev = eo;
                if (r.coin(0.5))
                    eoPrev.threeCosts = !eo.threeCosts;
                (void)rig.opt->evaluate(r.coin(0.2) ? x : xPrev, gPrev, oc.prog, eoPrev); // not recorded
                c.event(eoPrev.threeCosts != eo.threeCosts ? "evaluation.after_call_through_other_overload" : "evaluation.after_call_through_same_overload");
                if (other)
                {
                    rig.opt->setRho(oc.rho);
                    rig.opt->setSteps(oc.K);
                }
                c.event("evaluation.on_used_workspace");
            }
            double cost = rig.opt->evaluate(x, grad, prog, eo);
            Problem dec = decodeModel(oc, *rig.env, rig.tmH, rig.smH, x);
            // what the functors were given
            bool okT = rec.timeArgs.size() == 1 && bitEqualVec(rec.timeArgs[0], dec.T);
            c.require("C08.time_cost_called_once_with_decoded_durations", okT, okey(oc, "time_cost_args"));
            if (three)
                c.require("C08.waypoint_cost_called_once_with_decoded_waypoints", rec.wpArgs.size() == 1 && bitEqualMat(rec.wpArgs[0], dec.P), okey(oc, "waypoint_cost_args"));
            else
                c.require("C08.two_cost_overload_skips_waypoint_cost", rec.wpArgs.empty(), okey(oc, "waypoint_cost_args"));
            // samples: exactly once each, correct index / local time / global time / state
            std::vector<RunSample> smp = rec.merged();
            c.event("samples_observed", smp.size());
            bool countOk = (int)smp.size() == dec.N * (oc.K + 1);
            c.require("C08.sample_count", countOk, okey(oc, "sample_count"), "observed " + std::to_string(smp.size()) + " expected " + std::to_string(dec.N * (oc.K + 1)));
            auto fresh = makeSplineDur(dec);
            MatrixXd C = fresh->coeffs();
            const int nc = dec.ncoef();
            std::vector<std::vector<int>> seen(dec.N, std::vector<int>(oc.K + 1, 0));
            double wLocal = 0, wGlobal = 0, wState = 0;
            bool idxOk = true;
            LD integ = 0, integAbs = 0;
            std::vector<LD> segStart(dec.N + 1);
            segStart[0] = dec.t0;
            for (int i = 0; i < dec.N; ++i)
                segStart[i + 1] = segStart[i] + (LD)dec.T[i];
            double tmax = std::max(std::fabs((double)segStart[0]), std::fabs((double)segStart[dec.N]));
            for (auto &sm : smp)
            {
                if (sm.seg < 0 || sm.seg >= dec.N)
                {
                    idxOk = false;
                    continue;
                }
                const double T = dec.T[sm.seg];
                int k = (int)std::llround(sm.t * oc.K / T);
                if (k < 0 || k > oc.K)
                {
                    idxOk = false;
                    continue;
                }
                seen[sm.seg][k]++;
                LD tex = (LD)T * k / oc.K;
                wLocal = std::max(wLocal, std::fabs((double)((LD)sm.t - tex)) / (8 * ulpOf(T)));
                wGlobal = std::max(wGlobal, std::fabs((double)((LD)sm.tg - (segStart[sm.seg] + tex))) / ((sm.seg + 8) * ulpOf(tmax) + 8 * ulpOf(T)));
                LD st[5][kMaxDim];
                for (int d = 0; d < 5; ++d)
                    for (int j = 0; j < dec.dim; ++j)
                    {
                        PolyVal pv = polyDerivD(&C(sm.seg * nc, j), colStride(C), nc, (LD)sm.t, d);
                        st[d][j] = sm.x[d][j];
                        LD diff = fabsl((LD)sm.x[d][j] - pv.value);
                        double rel = diff == 0 ? 0 : (pv.abssum > 0 ? (double)(diff / pv.abssum) : INFINITY);
                        wState = std::max(wState, rel);
                    }
                // the trapezoid sum over the states the functor was actually given
                LD cv = oc.prog.runValueLD((LD)sm.tg, sm.seg, st[0], st[1], st[2], st[3], st[4]);
                LD w = (k == 0 || k == oc.K) ? 0.5L : 1.0L;
                integ += w * ((LD)T / oc.K) * cv;
                integAbs += fabsl(w * ((LD)T / oc.K) * cv);
            }
            bool once = idxOk;
            for (int i = 0; i < dec.N; ++i)
                for (int k = 0; k <= oc.K; ++k)
                    once = once && seen[i][k] == 1;
            c.require("C08.every_sample_exactly_once", once, okey(oc, "exactly_once"));
            c.check("C08.sample_local_time", wLocal, 1.0, okey(oc, "local_time"));
            c.check("C08.sample_global_time", wGlobal, 1.0, okey(oc, "global_time"));
            c.check("C08.sample_state_vs_trajectory", wState, 64 * 2.2e-16, okey(oc, "sample_state"));
            // through the public evaluator as well (a few samples)
            {
                double w = 0;
                for (size_t q = 0; q < smp.size(); q += std::max<size_t>(1, smp.size() / 12))
                {
                    const RunSample &sm = smp[q];
                    if (sm.seg < 0 || sm.seg >= dec.N)
                        continue;
                    for (int d = 0; d < 5; ++d)
                    {
                        VectorXd v = fresh->segEval(sm.seg, sm.t, d);
                        for (int j = 0; j < dec.dim; ++j)
                        {
                            PolyVal pv = polyDerivD(&C(sm.seg * nc, j), colStride(C), nc, (LD)sm.t, d);
                            w = std::max(w, scaledDiff(v(j), sm.x[d][j], (double)pv.abssum));
                        }
                    }
                }
                c.check("C08.sample_state_vs_public_evaluator", w, 64 * 2.2e-16, okey(oc, "sample_state"));
            }
            // cost decomposition
            LD ref = oc.prog.timeValueLD(dec.T) + (three ? oc.prog.wpValueLD(dec.P) : 0) + integ;
            LD refAbs = fabsl(oc.prog.timeValueLD(dec.T)) + (three ? fabsl(oc.prog.wpValueLD(dec.P)) : 0) + integAbs;
            if (oc.rho > 0)
            {
                LD E = 0, Ea = 0;
                for (int j = 0; j < dec.dim; ++j)
                    for (int i = 0; i < dec.N; ++i)
                    {
                        PolyVal ev = energyExact(&C(i * nc, j), colStride(C), nc, dec.s(), dec.T[i]);
                        E += ev.value;
                        Ea += ev.abssum;
                    }
                ref += (LD)oc.rho * E;
                refAbs += (LD)oc.rho * Ea;
            }
            c.check("C08.cost_is_sum_of_four_terms", refAbs > 0 ? (double)(fabsl((LD)cost - ref) / refAbs) : (cost == 0 ? 0 : INFINITY), 1e-10, okey(oc, "cost_decomposition"));
            // fully independent recomputation (own sampling of an independently constructed trajectory)
            CostBreakdown cb = recomputeCost(oc, dec, three);
            c.check("C08.cost_vs_independent_recomputation", cb.abssum > 0 ? (double)(fabsl((LD)cost - cb.total) / cb.abssum) : 0.0, 1e-8, okey(oc, "cost_recomputation"));
            // the workspace spline is the decoded trajectory
            {
                std::unique_ptr<ISpline> wsS = eo.ws >= 0 ? rig.env->wsSpline(eo.ws) : rig.opt->optimalSpline();
                bool ok = wsS && bitEqualMat(wsS->coeffs(), C) && bitEqualVec(wsS->timeSegments(), dec.T) && bitEqual(wsS->startTime(), dec.t0);
                c.require("C08.workspace_spline_is_decoded_trajectory", ok, okey(oc, "workspace_spline"));
            }
        }
    }
}

// ------------------------------------------------------------------ C09
struct Decoded
{
    std::vector<double> T;
    MatrixXd Q;
    BC bc;
    bool ok = false;
};
inline Decoded observeDecoded(const OptCase &oc, OptRig &rig, const VectorXd &x, VectorXd *gradOut = nullptr)
{
    Decoded d;
    Recorder rec;
    CostProgram prog = oc.prog;
    prog.rec = &rec;
    EvalOpts eo;
    eo.threeCosts = true;
    VectorXd g;
    rig.opt->evaluate(x, g, prog, eo);
    if (gradOut)
        *gradOut = g;
    if (rec.timeArgs.size() != 1 || rec.wpArgs.size() != 1)
        return d;
    d.T = rec.timeArgs[0];
    d.Q = rec.wpArgs[0];
    auto s = rig.opt->optimalSpline();
    if (!s)
        return d;
    d.bc = s->boundary();
    d.ok = true;
    return d;
}
inline void projectRefOntoMaps(OptCase &oc, const OptRig &rig)
{
    // reference waypoints must be representable by the spatial map (round trip through toUnconstrained/toPhysical)
    for (int i = 0; i <= oc.ref.N; ++i)
    {
        VectorXd xi = rig.env->smToUnconstrained(rig.smH, oc.ref.P.row(i).transpose(), i);
        oc.ref.P.row(i) = rig.env->smToPhysical(rig.smH, xi, i).transpose();
    }
}

inline void c09CheckConfig(Ctx &c, OptCase &oc, OptRig &rig, Rng &r, bool fullProbe, const std::string &how)
{
    int total = 0;
    auto L = layoutModel(oc, *rig.env, rig.smH, &total);
    const Problem ref = effectiveRef(oc);
    if (r.coin(0.4))
    {
        // the first thing after a (re)configuration is an evaluation with a hand-assembled decision vector (no
        // getDimension / generateInitialGuess in between)
        VectorXd xf = genDecisionVector(r, oc, rig);
        Decoded df = observeDecoded(oc, rig, xf);
        Problem dmf = decodeModel(oc, *rig.env, rig.tmH, rig.smH, xf);
        c.require("C09.first_evaluation_after_reconfiguration_decodes_by_model", df.ok && bitEqualVec(df.T, dmf.T) && bitEqualMat(df.Q, dmf.P), okey(oc, "decode"), how);
        c.event("evaluate_first_after_reconfiguration");
    }
    c.require("C09.dimension_equals_model", rig.opt->getDimension() == total, okey(oc, "dimension"), how + " reported=" + std::to_string(rig.opt->getDimension()) + " model=" + std::to_string(total));
    // initial guess decodes back to the reference
    VectorXd x0 = rig.opt->initialGuess();
    if (c.require("C09.initial_guess_size", (int)x0.size() == total, okey(oc, "initial_guess"), how))
    {
        Problem d0 = decodeModel(oc, *rig.env, rig.tmH, rig.smH, x0);
        double wT = 0, wP = 0;
        for (int i = 0; i < ref.N; ++i)
            wT = std::max(wT, std::fabs(d0.T[i] - ref.T[i]) / ref.T[i]);
        for (int i = 0; i <= ref.N; ++i)
            for (int j = 0; j < ref.dim; ++j)
                wP = std::max(wP, std::fabs(d0.P(i, j) - ref.P(i, j)) / (1 + std::fabs(ref.P(i, j))));
        c.check("C09.initial_guess_round_trip_durations", wT, 1e-12, okey(oc, "initial_guess"), how);
        c.check("C09.initial_guess_round_trip_waypoints", wP, oc.combo == 2 ? 1e-12 : 0.0, okey(oc, "initial_guess"), how);
        bool bcok = true;
        for (int d = 1; d <= 3; ++d)
            bcok = bcok && bitEqualMat(d0.bc.s(d), ref.bc.s(d)) && bitEqualMat(d0.bc.e(d), ref.bc.e(d));
        c.require("C09.initial_guess_round_trip_boundary", bcok, okey(oc, "initial_guess"), how);
        VectorXd xm = initialGuessModel(oc, *rig.env, rig.tmH, rig.smH);
        double w = 0;
        for (int i = 0; i < total; ++i)
            w = std::max(w, std::fabs(xm(i) - x0(i)) / (1 + std::fabs(xm(i))));
        c.check("C09.initial_guess_vs_layout_model", w, 1e-12, okey(oc, "initial_guess"), how);
    }
    // an arbitrary decision vector: decoded quantities as the functors and the exposed spline see them
    VectorXd x = genDecisionVector(r, oc, rig);
    if (r.coin(0.25))
    {
        // "for every decision vector": far from the reference as well (durations of a fraction of a millisecond or of
        // minutes, waypoints far away); decoding is judged bitwise against the maps, not numerically
        for (auto &e : L)
        {
            if (e.kind == 0 && r.coin(0.5))
                x(e.offset) = rig.env->tmToTau(rig.tmH, r.pick(std::vector<double>{7e-4, 2e-4, 3e-5, 250.0, 4000.0}));
            else if (e.kind == 1 && r.coin(0.3))
                for (int q = 0; q < e.size; ++q)
                    x(e.offset + q) += 50.0 * r.normal();
        }
        c.event("decision_vector.extreme");
    }
    VectorXd grad;
    if (r.coin(0.4))
    {
        // another (caller-owned) workspace is used first after the reconfiguration
        EvalOpts eo;
        eo.ws = rig.env->newWorkspace();
        VectorXd xo = genDecisionVector(r, oc, rig), go;
        (void)rig.opt->evaluate(xo, go, oc.prog, eo);
        rig.env->freeWorkspace(eo.ws);
        c.event("external_workspace_used_first");
    }
    Decoded base = observeDecoded(oc, rig, x, &grad);
    if (!c.require("C09.observation_available", base.ok, okey(oc, "observe"), how))
        return;
    c.require("C09.gradient_size", (int)grad.size() == total, okey(oc, "dimension"), how);
    Problem dm = decodeModel(oc, *rig.env, rig.tmH, rig.smH, x);
    bool decOk = bitEqualVec(base.T, dm.T) && bitEqualMat(base.Q, dm.P);
    for (int d = 1; d <= 3; ++d)
        decOk = decOk && bitEqualMat(base.bc.s(d), dm.bc.s(d)) && bitEqualMat(base.bc.e(d), dm.bc.e(d));
    c.require("C09.decoded_quantities_equal_model", decOk, okey(oc, "decode"), how);
    // exposed spline is the one defined by x
    {
        auto s = rig.opt->optimalSpline();
        auto fresh = makeSplineDur(dm);
        bool ok = s && bitEqualMat(s->coeffs(), fresh->coeffs()) && bitEqualVec(s->timeSegments(), dm.T) && bitEqualMat(s->spacePoints(), dm.P) && bitEqual(s->startTime(), dm.t0);
        c.require("C09.exposed_spline_defined_by_decision_vector", ok, okey(oc, "exposed_spline"), how);
    }
    // pinned quantities
    auto pinnedOk = [&](const Decoded &d) -> bool
    {
        bool ok = true;
        if (!oc.flags.f[0])
            ok = ok && bitEqualMat(d.Q.row(0), ref.P.row(0));
        if (!oc.flags.f[4])
            ok = ok && bitEqualMat(d.Q.row(ref.N), ref.P.row(ref.N));
        for (int side = 0; side < 2; ++side)
            for (int dd = 1; dd <= 3; ++dd)
            {
                bool optimised = oc.flags.f[side * 4 + dd] && dd <= ref.s() - 1;
                if (!optimised)
                    ok = ok && bitEqualMat(side == 0 ? d.bc.s(dd) : d.bc.e(dd), side == 0 ? ref.bc.s(dd) : ref.bc.e(dd));
            }
        ok = ok && bitEqual(rig.opt->optimalSpline()->startTime(), ref.t0);
        return ok;
    };
    c.require("C09.unflagged_quantities_pinned", pinnedOk(base), okey(oc, "pinned"), how);
    if (!fullProbe)
        return;
    // unit-probe identification: one component at a time, observe which decoded quantity moves
    bool probesOk = true;
    std::string why;
    for (auto &e : L)
        for (int q = 0; q < e.size; ++q)
        {
            VectorXd x2 = x;
            x2(e.offset + q) += 0.37;
            Decoded d = observeDecoded(oc, rig, x2);
            c.event("unit_probes");
            if (!d.ok)
            {
                probesOk = false;
                why = "no observation";
                continue;
            }
            // changed sets
            std::vector<int> chT, chQ;
            for (int i = 0; i < ref.N; ++i)
                if (!bitEqual(d.T[i], base.T[i]))
                    chT.push_back(i);
            for (int i = 0; i <= ref.N; ++i)
                if (!bitEqualMat(d.Q.row(i), base.Q.row(i)))
                    chQ.push_back(i);
            std::vector<std::array<int, 3>> chB; // side, deriv, coord
            for (int side = 0; side < 2; ++side)
                for (int dd = 1; dd <= 3; ++dd)
                    for (int j = 0; j < ref.dim; ++j)
                    {
                        double a = side == 0 ? d.bc.s(dd)(j) : d.bc.e(dd)(j), b = side == 0 ? base.bc.s(dd)(j) : base.bc.e(dd)(j);
                        if (!bitEqual(a, b))
                            chB.push_back({side, dd, j});
                    }
            bool ok = true;
            if (e.kind == 0)
                ok = chT.size() == 1 && chT[0] == e.index && chQ.empty() && chB.empty();
            else if (e.kind == 1)
                ok = chT.empty() && chQ.size() == 1 && chQ[0] == e.index && chB.empty();
            else
            {
                ok = chT.empty() && chQ.empty() && chB.size() == 1 && chB[0][0] == e.index && chB[0][1] == e.deriv && chB[0][2] == q;
                if (ok)
                {
                    double got = e.index == 0 ? d.bc.s(e.deriv)(q) : d.bc.e(e.deriv)(q);
                    ok = bitEqual(got, x2(e.offset + q));
                }
            }
            ok = ok && pinnedOk(d);
            if (!ok && probesOk)
            {
                probesOk = false;
                why = "component " + std::to_string(e.offset + q) + " (" + xGroup(e) + " index " + std::to_string(e.index) + ") moved T" + jveci(chT) + " Q" + jveci(chQ) + " bc#" + std::to_string(chB.size());
            }
        }
    c.require("C09.unit_probe_identification", probesOk, okey(oc, "layout"), how + " " + why);
}

inline void runC09(Ctx &c)
{
    const bool thorough = c.a.tier == "thorough";
    // (a) structural grid: flags x order x N x DIM x {identity map, user map}
    for (auto od : optCells())
    {
        const int order = od.first, dim = od.second;
        if (!selected(c.a.orders, order) || !selected(c.a.dims, dim) || dim > 3)
            continue;
        for (int N = 1; N <= 6; ++N)
            for (int combo : {0, 2})
            {
                std::string cell = "o" + std::to_string(order) + "d" + std::to_string(dim) + "N" + std::to_string(N) + "m" + std::to_string(combo);
                if (!c.cellSelected(cell))
                    continue;
                for (int fb = 0; fb < 256; ++fb)
                {
                    // quick: each flag byte is visited with every order, N/DIM/map rotating; thorough: the full product
                    if (!thorough && !(N == 1 + (fb + order) % 6 && dim == 1 + (fb / 6 + order) % 3 && combo == ((fb / 18 + order) % 2) * 2))
                        continue;
                    uint64_t idx = fb;
                    if (!c.mine(idx))
                        continue;
                    Rng r = c.beginCase(cell, idx);
                    OptCase oc = genOptCase(r, order, dim, N, combo, fb);
                    oc.K = r.range(1, 2);
                    if (combo == 2)
                    {
                        oc.userSm = true; // per-point unconstrained dimension differing from DIM
                        if (oc.smc.modes.size() == 1 && oc.smc.modes[0] == 0)
                            oc.smc.modes = {2, 0, 1};
                    }
                    OptRig rig = buildRig(oc);
                    projectRefOntoMaps(oc, rig);
                    c.dump = [&]() { return dumpOptCase(oc); };
                    if (!c.require("C09.reference_state_accepted", initRig(rig, oc), okey(oc, "setup")))
                        continue;
                    c.nontrivial(hashOptCase(oc));
                    if (fb == 0 && N == 1)
                        c.wantSample();
                    c.event(std::string("optimizer_route.") + routeViaCopy(r, rig));
                    c.event("grid_cells");
                    c09CheckConfig(c, oc, rig, r, true, "grid");
                }
            }
    }
    // (b) reconfiguration histories on one optimizer
    {
        const uint64_t per = c.count(thorough ? 120 : 12);
        for (auto od : optCells())
        {
            const int order = od.first, dim = od.second;
            if (!selected(c.a.orders, order) || !selected(c.a.dims, dim) || dim > 3)
                continue;
            for (int combo : {0, 2})
            {
                std::string cell = "hist_o" + std::to_string(order) + "d" + std::to_string(dim) + "m" + std::to_string(combo);
                if (!c.cellSelected(cell))
                    continue;
                for (uint64_t idx = 0; idx < per; ++idx)
                {
                    if (!c.mine(idx))
                        continue;
                    Rng r = c.beginCase(cell, idx);
                    OptCase oc = genOptCase(r, order, dim, r.range(1, 6), combo);
                    oc.K = 1;
                    oc.userTm = oc.userSm = false;
                    OptRig rig = buildRig(oc);
                    std::vector<std::string> trace;
                    c.dump = [&]()
                    {
                        std::string s = "[";
                        for (size_t i = 0; i < trace.size(); ++i)
                            s += (i ? "," : "") + jstr(trace[i]);
                        return JObj().raw("history", s + "]").raw("last_config", dumpOptCase(oc)).done();
                    };
                    if (!initRig(rig, oc))
                        continue;
                    // pools of user maps
                    std::vector<int> tmPool, smPool;
                    std::vector<UserTimeMapCfg> tmCfg;
                    std::vector<UserSpatialMapCfg> smCfg;
                    for (int q = 0; q < 2; ++q)
                    {
                        tmCfg.push_back(genTimeMapCfg(r));
                        smCfg.push_back(genSpatialMapCfg(r, dim));
                        if (q == 1 && smCfg[1].modes.size() == 1)
                            smCfg[1].modes = {1, 2, 0};
                        tmPool.push_back(rig.env->newTimeMap(tmCfg[q]));
                        smPool.push_back(rig.env->newSpatialMap(smCfg[q]));
                    }
                    uint64_t hh = 0;
                    const int len = r.range(4, thorough ? 24 : 12);
                    for (int step = 0; step < len && !c.case_failed; ++step)
                    {
                        int op = r.range(0, 5);
                        if (op == 5)
                        {
                            // warm restart: the exposed spline's own getters are passed straight back into setInitState
                            // (references into the optimizer's built-in workspace)
                            auto sp = rig.opt->optimalSpline();
                            bool usable = (bool)sp && sp->isInitialized();
                            Problem nr;
                            const int which = r.range(0, 1);
                            if (usable)
                            {
                                nr.order = order;
                                nr.dim = dim;
                                nr.T = sp->timeSegments();
                                nr.N = (int)nr.T.size();
                                nr.P = sp->spacePoints();
                                nr.bc = sp->boundary();
                                nr.t0 = sp->startTime();
                                if (which == 1)
                                {
                                    std::vector<double> tp = sp->cumTimes();
                                    for (int i = 0; i < nr.N; ++i)
                                        nr.T[i] = tp[i + 1] - tp[i];
                                    nr.t0 = tp[0];
                                }
                                for (double t : nr.T)
                                    usable = usable && std::isfinite(t) && t >= 2e-3 && t < 1e6;
                                usable = usable && allFinite(nr.P) && std::fabs(nr.t0) < 1e9;
                            }
                            if (usable)
                            {
                                bool ok = rig.opt->reinitFromOwnSpline(which);
                                oc.ref = nr;
                                oc.initByPoints = which == 1;
                                trace.push_back(std::string("setInitState(own spline getters, ") + (which ? "time points" : "durations") + ") N=" + std::to_string(nr.N) + (ok ? "" : " REJECTED"));
                                c.require("C09.warm_restart_from_own_spline_accepted", ok && rig.opt->isValid(), okey(oc, "setup"), rig.opt->lastError());
                                c.event("op.warm_restart_from_own_spline");
                            }
                            else
                                op = 0;
                        }
                        switch (op)
                        {
                        case 5:
                            break;
                        case 0:
                            oc.flags = OptFlags::fromByte(r.range(0, 255));
                            rig.opt->setFlags(oc.flags);
                            trace.push_back("setFlags " + std::to_string(oc.flags.toByte()));
                            break;
                        case 1:
                        {
                            int k = r.range(-1, 1);
                            rig.smH = k < 0 ? -1 : smPool[k];
                            oc.userSm = k >= 0;
                            if (k >= 0)
                                oc.smc = smCfg[k];
                            rig.opt->setSpatialMap(rig.smH);
                            trace.push_back("setSpatialMap " + std::to_string(k));
                            break;
                        }
                        case 2:
                        {
                            int k = r.range(-1, 1);
                            rig.tmH = k < 0 ? -1 : tmPool[k];
                            oc.userTm = k >= 0;
                            if (k >= 0)
                                oc.tmc = tmCfg[k];
                            rig.opt->setTimeMap(rig.tmH);
                            trace.push_back("setTimeMap " + std::to_string(k));
                            break;
                        }
                        default:
                        {
                            OptCase n2 = genOptCase(r, order, dim, r.range(1, 8), combo);
                            oc.ref = n2.ref;
                            oc.initByPoints = n2.initByPoints;
                            projectRefOntoMaps(oc, rig);
                            bool ok = oc.initByPoints ? rig.opt->setInitPts(oc.ref.timePoints(), oc.ref.P, oc.ref.bc) : rig.opt->setInitDur(oc.ref.T, oc.ref.P, oc.ref.t0, oc.ref.bc);
                            trace.push_back(std::string("setInitState N=") + std::to_string(oc.ref.N) + (ok ? "" : " REJECTED"));
                            if (!ok)
                                c.require("C09.reference_state_accepted", false, okey(oc, "setup"));
                            break;
                        }
                        }
                        if (op == 1)
                        {
                            // first observe the layout with the optimizer's stored reference untouched: dimension and
                            // decoding must already follow the new map (a stale layout cache is observable here)
                            int total = 0;
                            layoutModel(oc, *rig.env, rig.smH, &total);
                            c.require("C09.dimension_follows_setSpatialMap", rig.opt->getDimension() == total, okey(oc, "dimension"), "after " + trace.back());
                            VectorXd xq = genDecisionVector(r, oc, rig);
                            Decoded dq = observeDecoded(oc, rig, xq);
                            Problem dmq = decodeModel(oc, *rig.env, rig.tmH, rig.smH, xq);
                            c.require("C09.decoding_follows_setSpatialMap", dq.ok && bitEqualVec(dq.T, dmq.T) && bitEqualMat(dq.Q, dmq.P), okey(oc, "decode"), "after " + trace.back());
                            // then make the reference representable by the new map (needed by the round-trip statement)
                            projectRefOntoMaps(oc, rig);
                            bool ok = oc.initByPoints ? rig.opt->setInitPts(oc.ref.timePoints(), oc.ref.P, oc.ref.bc) : rig.opt->setInitDur(oc.ref.T, oc.ref.P, oc.ref.t0, oc.ref.bc);
                            c.require("C09.reference_state_accepted", ok, okey(oc, "setup"));
                        }
                        hh = mix64(hh, hashStr(trace.back().c_str()));
                        c.event("reconfigurations");
                        c09CheckConfig(c, oc, rig, r, r.coin(0.3), "after " + trace.back());
                    }
                    c.nontrivial(hh);
                    if (idx < 1)
                        c.wantSample();
                }
            }
        }
    }
}
} // namespace vf
#include "opt_monitors2.hpp"
