// C12 (concurrency part): evaluations issued concurrently from several threads on ONE configured optimizer, each with
// its own Workspace -- with and without a prior single-threaded call, after every kind of reconfiguration -- must be
// free of data races (ThreadSanitizer build) and return exactly what the same calls return sequentially (all builds).
#define VF_MAIN_TU 1
#include "common/monitor.hpp"
#include "SplineOptimizer.hpp"
#include "common/iface_opt.hpp"
#include "common/user_maps.hpp"
#include "common/gen.hpp"
#include <thread>
#include <atomic>
#include <condition_variable>

using namespace vf;
namespace ST = SplineTrajectory;
namespace vf
{
char g_case_desc[512] = "none";
std::vector<const void *> *g_timeMapCallLog = nullptr;
std::vector<const void *> *g_spatialMapCallLog = nullptr;
} // namespace vf

namespace
{
template <int DIM>
struct UserSpatialMapD : UserSpatialMap
{
    UserSpatialMapD() { dim = DIM; }
    explicit UserSpatialMapD(const UserSpatialMapCfg &c) : UserSpatialMap(c, DIM) {}
};
struct TimeCostF
{
    const CostProgram *p;
    double operator()(const std::vector<double> &T, Eigen::VectorXd &g) const { return p->timeCost(T, g); }
};
struct WpCostF
{
    const CostProgram *p;
    template <class Q, class G>
    double operator()(const Q &q, G &g) const
    {
        Eigen::MatrixXd qq = q, gg;
        double c = p->wpCost(qq, gg);
        g = gg;
        return c;
    }
};
template <int DIM>
struct RunCostF
{
    using Vec = Eigen::Matrix<double, DIM, 1>;
    const CostProgram *p;
    double operator()(double t, double tg, int i, const Vec &P, const Vec &V, const Vec &A, const Vec &J, const Vec &S, Vec &gp, Vec &gv, Vec &ga, Vec &gj, Vec &gs, double &gt) const
    {
        return p->runCost(t, tg, i, P.data(), V.data(), A.data(), J.data(), S.data(), gp.data(), gv.data(), ga.data(), gj.data(), gs.data(), gt);
    }
};

struct Barrier
{
    std::mutex m;
    std::condition_variable cv;
    int waiting = 0, total, gen = 0;
    explicit Barrier(int n) : total(n) {}
    void wait()
    {
        std::unique_lock<std::mutex> lk(m);
        int g = gen;
        if (++waiting == total)
        {
            waiting = 0;
            ++gen;
            cv.notify_all();
        }
        else
            cv.wait(lk, [&] { return g != gen; });
    }
};

template <class Spline, int DIM, class TM, class SM, bool USERMAPS>
struct Trial
{
    using Opt = ST::SplineOptimizer<DIM, Spline, TM, SM>;
    using WS = typename Opt::Workspace;
    using Mat = typename Spline::MatrixType;

    static Mat toMat(const MatrixXd &m)
    {
        Mat r(m.rows(), DIM);
        for (int i = 0; i < m.rows(); ++i)
            for (int j = 0; j < DIM; ++j)
                r(i, j) = m(i, j);
        return r;
    }
    static ST::BoundaryConditions<DIM> toBC(const BC &b)
    {
        ST::BoundaryConditions<DIM> r;
        for (int j = 0; j < DIM; ++j)
        {
            r.start_velocity(j) = b.sv(j);
            r.start_acceleration(j) = b.sa(j);
            r.start_jerk(j) = b.sj(j);
            r.end_velocity(j) = b.ev(j);
            r.end_acceleration(j) = b.ea(j);
            r.end_jerk(j) = b.ej(j);
        }
        return r;
    }
    static ST::OptimizationFlags toFlags(int b)
    {
        ST::OptimizationFlags o;
        o.start_p = b & 1;
        o.start_v = b & 2;
        o.start_a = b & 4;
        o.start_j = b & 8;
        o.end_p = b & 16;
        o.end_v = b & 32;
        o.end_a = b & 64;
        o.end_j = b & 128;
        return o;
    }

    struct Config
    {
        Problem ref;
        int flags = 0;
        double rho = 0;
        int K = 2;
        int tm = -1, sm = -1; // user map index or -1
    };
    static void apply(Opt &o, const Config &cf, const std::vector<std::unique_ptr<TM>> &tms, const std::vector<std::unique_ptr<SM>> &sms, int what)
    {
        // what: 0 everything, 1 flags only, 2 spatial map only, 3 init state only, 4 time map only
        if (what == 0 || what == 4)
            o.setTimeMap(cf.tm < 0 ? nullptr : tms[cf.tm].get());
        if (what == 0 || what == 2)
            o.setSpatialMap(cf.sm < 0 ? nullptr : sms[cf.sm].get());
        if (what == 0 || what == 3)
        {
            if (!o.setInitState(cf.ref.T, toMat(cf.ref.P), cf.ref.t0, toBC(cf.ref.bc)))
                throw std::runtime_error("conc: reference rejected");
        }
        if (what == 0 || what == 1)
            o.setOptimizationFlags(toFlags(cf.flags));
        if (what == 0)
        {
            o.setEnergyWeights(cf.rho);
            o.setIntegralNumSteps(cf.K);
        }
    }

    static void run(Ctx &c, const std::string &cell, int order, uint64_t trials)
    {
        for (uint64_t idx = 0; idx < trials; ++idx)
        {
            if (!c.mine(idx))
                continue;
            Rng r = c.beginCase(cell, idx);
            std::vector<std::unique_ptr<TM>> tms;
            std::vector<std::unique_ptr<SM>> sms;
            if constexpr (USERMAPS)
            {
                for (int q = 0; q < 2; ++q)
                {
                    UserTimeMapCfg tc;
                    tc.mode = r.range(0, 2);
                    tc.scale = r.uni(0.7, 1.5);
                    tc.shift = tc.mode == 2 ? 0.2 : 0.0;
                    tms.emplace_back(new TM(tc));
                    UserSpatialMapCfg sc;
                    sc.modes = q == 0 ? std::vector<int>{0, 1} : std::vector<int>{2, 0, 1};
                    sc.S = r.uni(0.7, 1.4);
                    for (int j = 0; j < kMaxDim; ++j)
                    {
                        sc.o[j] = r.normal();
                        sc.c[j] = r.normal();
                        sc.a[j] = r.uni(0.5, 1.5);
                        sc.phi[j] = r.uni(0, 6);
                        sc.w[j] = r.uni(-1, 1);
                    }
                    sc.yields = r.range(0, 3); // widens the window inside the layout rebuild (an existing callback point)
                    sms.emplace_back(new SM(sc));
                }
            }
            Config cf;
            GenOpts go;
            go.ratio_cap = 3;
            go.base_lo = 0.5;
            go.base_hi = 2.0;
            go.data_class = 0;
            go.zero_t0 = r.coin();
            cf.ref = genProblem(r, order, DIM, r.range(1, 6), go);
            cf.flags = r.range(0, 255);
            cf.rho = r.coin() ? 0.0 : r.uni(0.01, 0.5);
            cf.K = r.pick(std::vector<int>{1, 2, 4});
            if (USERMAPS)
            {
                cf.tm = r.range(-1, 1);
                cf.sm = r.range(-1, 1);
            }
            CostProgram prog = CostProgram::generate(r, DIM);
            Recorder rec;
            prog.rec = &rec;
            std::string trace;
            c.dump = [&]() { return JObj().str("history", trace).i("order", order).i("dim", DIM).done(); };
            Opt opt;
            apply(opt, cf, tms, sms, 0);
            uint64_t hh = hashProblem(cf.ref);
            const int rounds = r.range(2, 4);
            for (int round = 0; round < rounds; ++round)
            {
                // reconfigure (dirty layout) between rounds
                int what = 0;
                if (round > 0)
                {
                    what = r.range(1, USERMAPS ? 4 : 3);
                    if (what == 4 && !USERMAPS)
                        what = 1;
                    if (what == 2 && !USERMAPS)
                        what = 3;
                    if (what == 1)
                        cf.flags = r.range(0, 255);
                    else if (what == 2)
                        cf.sm = r.range(-1, 1);
                    else if (what == 4)
                        cf.tm = r.range(-1, 1);
                    else
                        cf.ref = genProblem(r, order, DIM, r.range(1, 6), go);
                    apply(opt, cf, tms, sms, what);
                }
                const bool prior = r.coin(0.4);
                const int nthreads = r.pick(std::vector<int>{2, 4, 8, 16});
                const int reps = r.range(1, 2);
                trace += "[round " + std::to_string(round) + " reconf=" + std::to_string(what) + " prior=" + std::to_string(prior) + " threads=" + std::to_string(nthreads) + "]";
                hh = mix64(hh, what * 1000 + nthreads * 10 + prior);
                // decision vectors: dimension from an independent, single-threaded optimizer with the same configuration
                Opt seqOpt;
                apply(seqOpt, cf, tms, sms, 0);
                const int dimx = seqOpt.getDimension();
                VectorXd x0 = seqOpt.generateInitialGuess();
                std::vector<VectorXd> xs(nthreads);
                for (int t = 0; t < nthreads; ++t)
                {
                    xs[t] = x0;
                    for (int q = 0; q < dimx; ++q)
                        xs[t](q) += 0.1 * r.normal();
                }
                // sequential reference values
                std::vector<double> seqCost(nthreads);
                std::vector<VectorXd> seqGrad(nthreads);
                {
                    CostProgram p2 = prog;
                    p2.rec = nullptr;
                    for (int t = 0; t < nthreads; ++t)
                    {
                        WS w;
                        seqCost[t] = seqOpt.evaluate(xs[t], seqGrad[t], TimeCostF{&p2}, WpCostF{&p2}, RunCostF<DIM>{&p2}, &w);
                    }
                }
                if (prior)
                {
                    WS w;
                    VectorXd g;
                    (void)opt.evaluate(xs[0], g, TimeCostF{&prog}, WpCostF{&prog}, RunCostF<DIM>{&prog}, &w);
                }
                rec.clear();
                // concurrent calls released by a barrier
                std::vector<double> cost(nthreads * reps);
                std::vector<VectorXd> grad(nthreads * reps);
                std::vector<std::unique_ptr<WS>> wss;
                for (int t = 0; t < nthreads; ++t)
                    wss.emplace_back(new WS());
                Barrier bar(nthreads);
                std::atomic<int> inside{0}, maxInside{0};
                const Opt &copt = opt;
                std::vector<std::thread> th;
                for (int t = 0; t < nthreads; ++t)
                    th.emplace_back([&, t]()
                                    {
                                        bar.wait();
                                        for (int q = 0; q < reps; ++q)
                                        {
                                            int now = inside.fetch_add(1) + 1;
                                            int m = maxInside.load();
                                            while (now > m && !maxInside.compare_exchange_weak(m, now))
                                            {
                                            }
                                            cost[t * reps + q] = copt.evaluate(xs[t], grad[t * reps + q], TimeCostF{&prog}, WpCostF{&prog}, RunCostF<DIM>{&prog}, wss[t].get());
                                            inside.fetch_sub(1);
                                        } });
                for (auto &t : th)
                    t.join();
                bool same = true;
                for (int t = 0; t < nthreads; ++t)
                    for (int q = 0; q < reps; ++q)
                        same = same && bitEqual(cost[t * reps + q], seqCost[t]) && bitEqualMat(grad[t * reps + q], seqGrad[t]);
                c.require("C12.concurrent_equals_sequential_bitwise", same, JObj().i("order", order).i("dim", DIM).i("threads", nthreads).b("prior_call", prior).i("reconfiguration", what).str("equation", "concurrent_value").done(), trace);
                c.event("concurrent_rounds");
                c.event(prior ? "rounds.with_prior_call" : "rounds.first_calls_concurrent");
                c.event("concurrent_evaluations", (uint64_t)nthreads * reps);
                c.event("threads." + std::to_string(nthreads));
                c.event("reconfiguration." + std::to_string(what));
                if (maxInside.load() >= 2)
                    c.event(prior ? "overlap_observed.with_prior" : "overlap_observed.first_calls");
                c.counters["max_threads_simultaneously_inside_evaluate"] = std::max<uint64_t>(c.counters["max_threads_simultaneously_inside_evaluate"], (uint64_t)maxInside.load());
                // interleaving actually observed at the running-cost callback
                std::vector<RunSample> sm = rec.merged();
                std::string inter;
                int last = -1;
                for (auto &s : sm)
                    if (s.thread != last)
                    {
                        inter += std::to_string(s.thread) + ">";
                        last = s.thread;
                    }
                if (inter.size() > 400)
                    inter = std::to_string(hashStr(inter.c_str()));
                c.distinct_sets[1].insert(inter);
                c.event("callback_events_logged", sm.size());
            }
            c.nontrivial(hh);
            if (idx < 1)
                c.wantSample();
        }
    }
};
} // namespace

int main(int argc, char **argv)
{
    Args a;
    if (!parseArgs(argc, argv, a))
        return 2;
    installCrashHandlers();
    Ctx c;
    c.a = a;
    c.prop_hash = hashStr(a.prop.c_str());
    if (!a.out.empty())
    {
        c.out = fopen(a.out.c_str(), "w");
        if (!c.out)
            return 2;
    }
    if (a.prop != "C12")
    {
        fprintf(stderr, "conc_driver: unknown property %s\n", a.prop.c_str());
        return 2;
    }
    const bool thorough = a.tier == "thorough";
    const uint64_t n = c.count(thorough ? 240 : 32);
    try
    {
        if (c.cellSelected("conc_o5d2_default"))
            Trial<ST::QuinticSplineND<2>, 2, ST::QuadInvTimeMap, ST::IdentitySpatialMap<2>, false>::run(c, "conc_o5d2_default", 5, n);
        if (c.cellSelected("conc_o7d3_user"))
            Trial<ST::SepticSplineND<3>, 3, UserTimeMap, UserSpatialMapD<3>, true>::run(c, "conc_o7d3_user", 7, n);
        // coefficient blocks larger than 32 doubles (septic DIM>=5, quintic DIM>=6): storage an implementation might treat
        // differently from small fixed-size blocks
        if (c.cellSelected("conc_o7d5_default"))
            Trial<ST::SepticSplineND<5>, 5, ST::QuadInvTimeMap, ST::IdentitySpatialMap<5>, false>::run(c, "conc_o7d5_default", 7, n);
        if (c.cellSelected("conc_o5d6_default"))
            Trial<ST::QuinticSplineND<6>, 6, ST::QuadInvTimeMap, ST::IdentitySpatialMap<6>, false>::run(c, "conc_o5d6_default", 5, n);
        if (c.cellSelected("conc_o3d1_user"))
            Trial<ST::CubicSplineND<1>, 1, UserTimeMap, UserSpatialMapD<1>, true>::run(c, "conc_o3d1_user", 3, n);
    }
    catch (const std::exception &e)
    {
        fprintf(stderr, "VF_HARNESS_ERROR %s (%s)\n", e.what(), g_case_desc);
        return 3;
    }
    c.finish();
    if (c.out != stdout)
        fclose(c.out);
    return 0;
}
