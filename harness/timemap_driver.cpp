// C17: time maps are smooth increasing bijections onto positive durations (formula-independent contract checks).
#define VF_MAIN_TU 1
#include "common/monitor.hpp"
#include "SplineOptimizer.hpp"

using namespace vf;
namespace vf
{
char g_case_desc[512] = "none";
}

namespace
{
using SplineTrajectory::IdentityTimeMap;
using SplineTrajectory::QuadInvTimeMap;
typedef long double LD;

double nextUp(double x, int n)
{
    for (int i = 0; i < n; ++i)
        x = std::nextafter(x, INFINITY);
    return x;
}
double nextDown(double x, int n)
{
    for (int i = 0; i < n; ++i)
        x = std::nextafter(x, -INFINITY);
    return x;
}

std::string tkey(const char *eq) { return JObj().str("equation", eq).done(); }

void checkTau(Ctx &c, const QuadInvTimeMap &m, double tau)
{
    const double T = m.toTime(tau);
    std::string d = "tau=" + jhex(tau);
    c.require("C17.positive_finite", std::isfinite(T) && T > 0, tkey("positivity"), d);
    // monotone on adjacent floats (non-decreasing)
    {
        double up = std::nextafter(tau, INFINITY), dn = std::nextafter(tau, -INFINITY);
        c.require("C17.nondecreasing_adjacent", m.toTime(up) >= T && m.toTime(dn) <= T, tkey("monotone_adjacent"), d);
    }
    // strictly increasing once the arguments differ by more than rounding: the map's relative condition is
    // |tau T'/T| <= 2 for tau>0 and <= 2 for tau<0; 64 ulp of max(|tau|,1) is far beyond rounding
    {
        double h = 64 * ulpOf(std::max(std::fabs(tau), 1.0));
        // for very negative tau T ~ 2/tau^2 shrinks: relative change of T for a step h is ~ 2h/|tau|, must exceed eps
        if (std::fabs(tau) < 1e6 + 1)
            c.require("C17.strictly_increasing", m.toTime(tau + h) > T && m.toTime(tau - h) < T, tkey("monotone_strict"), d);
    }
    // inverse: toTau(toTime(tau)) == tau, relative to 1+|tau|
    {
        double back = m.toTau(T);
        // conditioning: d tau / d T * T = T / T'(tau); for tau>0: T/(tau+1) ~ tau/2 -> relative error eps*|tau|/2 * ... fine.
        // for tau<0: T/T' = den/(1-tau) with den=(0.5 tau -1)tau+1 ~ 0.5 tau^2 => ~ |tau|/2
        double tol = 1e-13 * (1 + std::fabs(tau));
        c.check("C17.toTau_inverts_toTime", std::fabs(back - tau) / tol, 1.0, tkey("inverse"), d + " T=" + jhex(T) + " back=" + jhex(back));
    }
    // backward rule: backward(tau,T,g) == g * backward(tau,T,1), and backward(tau,T,1) == dT/dtau
    {
        double b1 = m.backward(tau, T, 1.0);
        for (double g : {2.0, -3.5, 1e-3, 7e5, 0.0})
        {
            double bg = m.backward(tau, T, g);
            double ex = g * b1;
            c.check("C17.backward_linear_in_gradient", std::fabs(bg - ex) / (4 * ulpOf(std::fabs(ex)) + 1e-300), 1.0, tkey("backward_linear"), d);
        }
        c.require("C17.backward_positive", b1 > 0 && std::isfinite(b1), tkey("backward_sign"), d);
        // symmetric difference of the library's own toTime, in long double to keep the difference quotient clean
        double h = 1e-5 * std::max(1.0, std::fabs(tau));
        // keep both stencil points on one side of the switch when far from it; across it the map is C1 so the
        // symmetric difference is still second-order accurate up to the curvature jump: use a one-sided check there
        double fd;
        if (std::fabs(tau) > 2 * h)
            fd = (double)(((LD)m.toTime(tau + h) - (LD)m.toTime(tau - h)) / (2 * (LD)h));
        else
        {
            // tau within 2h of zero: compare with slopes on the side tau is on (or both for tau == 0)
            fd = b1; // handled by the C1 check below
        }
        // second-order truncation: h^2/6 |T'''| ; T''' is 0 for tau>0 and bounded by ~6 T'/(...) otherwise: allow 1e-7 relative
        c.check("C17.backward_equals_derivative", std::fabs(b1 - fd) / std::fabs(fd), 1e-7, tkey("backward_derivative"), d + " backward=" + jhex(b1) + " fd=" + jhex(fd));
    }
}

void checkT(Ctx &c, const QuadInvTimeMap &m, double T)
{
    std::string d = "T=" + jhex(T);
    double tau = m.toTau(T);
    c.require("C17.toTau_finite", std::isfinite(tau), tkey("inverse"), d);
    double back = m.toTime(tau);
    c.check("C17.toTime_inverts_toTau", std::fabs(back - T) / T, 1e-13, tkey("inverse"), d + " tau=" + jhex(tau) + " back=" + jhex(back));
    // toTau increasing in T
    double up = std::nextafter(T, INFINITY);
    c.require("C17.toTau_nondecreasing", m.toTau(up) >= tau, tkey("monotone_adjacent"), d);
}

void runC17(Ctx &c)
{
    const bool thorough = c.a.tier == "thorough";
    QuadInvTimeMap m;
    IdentityTimeMap id;
    const uint64_t blocks = c.count(thorough ? 3000 : 300);
    for (uint64_t idx = 0; idx < blocks; ++idx)
    {
        if (!c.mine(idx))
            continue;
        Rng r = c.beginCase("quadinv", idx);
        std::vector<double> taus;
        // dense near zero, on both sides of the switch, including adjacent floats and denormals
        for (int q = 0; q < 200; ++q)
            taus.push_back(r.uni(-1e-3, 1e-3));
        for (int q = 0; q < 100; ++q)
            taus.push_back((r.coin() ? 1 : -1) * r.logUni(1e-300, 1e-3));
        for (int q = 0; q < 300; ++q)
            taus.push_back((r.coin() ? 1 : -1) * r.logUni(1e-3, 1e6));
        for (int q = 0; q < 100; ++q)
            taus.push_back(r.uni(-3, 3));
        if (idx == 0)
        {
            for (int n = 0; n <= 64; ++n)
            {
                taus.push_back(nextUp(0.0, n));
                taus.push_back(nextDown(0.0, n));
                taus.push_back(nextUp(1.0, n));
                taus.push_back(nextDown(1.0, n));
                taus.push_back(nextUp(-1.0, n));
                taus.push_back(nextDown(-1.0, n));
                taus.push_back(nextUp(2.0, n));
                taus.push_back(nextDown(2.0, n));
            }
            taus.push_back(-0.0);
            taus.push_back(1e6);
            taus.push_back(-1e6);
            taus.push_back(2.2250738585072014e-308);
            taus.push_back(-2.2250738585072014e-308);
        }
        uint64_t hh = 0;
        c.dump = [&]() { return JObj().i("taus", (long long)taus.size()).raw("first", jvec(std::vector<double>(taus.begin(), taus.begin() + 5), true)).done(); };
        for (double tau : taus)
        {
            checkTau(c, m, tau);
            hh = hashDoubles(&tau, 1, hh);
            c.event("tau_points");
        }
        // C1 across the switch: one-sided slopes on both sides of zero agree, backward is Lipschitz across it
        for (int q = 0; q < 40; ++q)
        {
            double h = r.logUni(1e-9, 1e-4);
            LD T0 = m.toTime(0.0);
            LD sr = ((LD)m.toTime(h) - T0) / (LD)h, sl = (T0 - (LD)m.toTime(-h)) / (LD)h;
            c.check("C17.one_sided_slopes_agree_at_switch", (double)fabsl(sr - sl) / (4 * h + 1e-6), 1.0, tkey("c1_at_switch"), "h=" + jhex(h));
            double br = m.backward(h, m.toTime(h), 1.0), bl = m.backward(-h, m.toTime(-h), 1.0), b0 = m.backward(0.0, m.toTime(0.0), 1.0);
            c.check("C17.backward_continuous_at_switch", std::max(std::fabs(br - b0), std::fabs(bl - b0)) / (4 * h + 1e-12), 1.0, tkey("c1_at_switch"), "h=" + jhex(h));
            c.check("C17.slope_matches_backward_at_switch", std::max((double)fabsl(sr - (LD)b0), (double)fabsl(sl - (LD)b0)) / (4 * h + 1e-6), 1.0, tkey("c1_at_switch"), "h=" + jhex(h));
            // continuity of the value itself
            c.check("C17.value_continuous_at_switch", std::fabs(m.toTime(nextUp(0.0, 1)) - m.toTime(nextDown(0.0, 1))), 1e-15, tkey("c0_at_switch"));
            c.event("switch_probes");
        }
        // durations a user would write down, and the images of whole-number variables, with their neighbours
        if (idx == 0)
        {
            std::vector<double> special{0.001, 0.01, 0.05, 0.1, 0.2, 0.25, 0.3, 0.4, 0.5, 0.6, 0.75, 0.8, 1.0, 1.25, 1.5, 2.0, 2.5, 3.0, 4.0, 5.0, 10.0, 60.0, 100.0, 1000.0};
            for (int k = -12; k <= 12; ++k)
            {
                special.push_back(m.toTime((double)k));
                special.push_back(m.toTime(k + 0.5));
            }
            for (double T0 : special)
                for (int n = -3; n <= 3; ++n)
                {
                    double T = n >= 0 ? nextUp(T0, n) : nextDown(T0, -n);
                    checkT(c, m, T);
                    c.event("duration_points.special");
                }
        }
        // durations
        for (int q = 0; q < 400; ++q)
        {
            double T = r.coin(0.2) ? nextUp(1.0, r.range(0, 40)) : (r.coin(0.25) ? nextDown(1.0, r.range(0, 40)) : r.logUni(1e-6, 1e6));
            checkT(c, m, T);
            hh = hashDoubles(&T, 1, hh);
            c.event("duration_points");
        }
        // arguments of other arithmetic types (whole numbers written as int / long / unsigned, float variables): the
        // interface is double -> double, so the result is the one for the converted value
        for (int q = 0; q < 40; ++q)
        {
            const int iv = r.range(-9, 9);
            const long lv = r.range(-2000, 2000);
            const unsigned uv = (unsigned)r.range(1, 50);
            const float fv = (float)(r.normal() * 3.0);
            const float fT = (float)r.logUni(1e-3, 1e3);
            bool ok = bitEqual((double)m.toTime(iv), m.toTime((double)iv)) && bitEqual((double)m.toTime(lv), m.toTime((double)lv)) &&
                      bitEqual((double)m.toTime(uv), m.toTime((double)uv)) && bitEqual((double)m.toTime(fv), m.toTime((double)fv)) &&
                      bitEqual((double)m.toTau(uv), m.toTau((double)uv)) && bitEqual((double)m.toTau(fT), m.toTau((double)fT)) &&
                      bitEqual((double)m.toTau(iv < 1 ? 1 - iv : iv), m.toTau((double)(iv < 1 ? 1 - iv : iv))) &&
                      bitEqual((double)m.backward(iv, m.toTime((double)iv), 1), m.backward((double)iv, m.toTime((double)iv), 1.0)) &&
                      bitEqual((double)id.toTime(fv), (double)fv) && bitEqual((double)id.toTau(uv), (double)uv);
            c.require("C17.non_double_arguments_are_converted", ok, tkey("argument_types"), "int=" + std::to_string(iv) + " float=" + jhex((double)fv));
            c.event("argument_type_probes");
        }
        // identity map: exact pass-through
        for (int q = 0; q < 50; ++q)
        {
            double x = r.coin() ? r.normal() * std::pow(10.0, r.range(-6, 6)) : r.logUni(1e-6, 1e6);
            double g = r.normal() * std::pow(10.0, r.range(-3, 3));
            bool ok = bitEqual(id.toTime(x), x) && bitEqual(id.toTau(x), x) && bitEqual(id.backward(x, x, g), g) && bitEqual(id.backward(-x, 2 * x, g), g);
            c.require("C17.identity_map_passes_through", ok, tkey("identity"));
            c.event("identity_points");
        }
        c.nontrivial(hh);
        if (idx < 1)
            c.wantSample();
    }
}
} // namespace

int main(int argc, char **argv)
{
    Args a;
    if (!parseArgs(argc, argv, a))
        return 2;
    installCrashHandlers();
    Ctx c;
    c.a = a;
    c.prop_hash = hashStr(a.prop.c_str());
    if (!a.out.empty())
    {
        c.out = fopen(a.out.c_str(), "w");
        if (!c.out)
            return 2;
    }
    if (a.prop != "C17")
    {
        fprintf(stderr, "timemap_driver: unknown property %s\n", a.prop.c_str());
        return 2;
    }
    runC17(c);
    c.finish();
    if (c.out != stdout)
        fclose(c.out);
    return 0;
}
