// Monitors over the spline classes (through vf::ISpline): C01 C02 C04 C05 C06 C10 C13 C14 C18.
#define VF_MAIN_TU 1
#include "common/monitor.hpp"
#include "common/iface.hpp"
#include "common/routes.hpp"
#include "common/oracle.hpp"
#include "common/gen.hpp"
#include "common/fd.hpp"
#include "spline_monitors.hpp"

using namespace vf;

int main(int argc, char **argv)
{
    Args a;
    if (!parseArgs(argc, argv, a))
    {
        fprintf(stderr, "usage: spline_driver --prop Cnn [--tier quick|thorough] [--seed S] [--shard i/n] [--scale f] [--out file]\n");
        return 2;
    }
    installCrashHandlers();
    installRoutesHook();
    Ctx c;
    c.a = a;
    c.prop_hash = hashStr(a.prop.c_str());
    if (!a.out.empty())
    {
        c.out = fopen(a.out.c_str(), "w");
        if (!c.out)
        {
            perror("open out");
            return 2;
        }
    }
    try
    {
        if (a.mode == "threads")
            runThreadsSpline(c);
        else if (a.mode == "static_init")
            runStaticInit(c);
        else if (a.prop == "C01")
            runC01(c);
        else if (a.prop == "C02")
            runC02(c);
        else if (a.prop == "C04")
            runC04(c);
        else if (a.prop == "C05")
            runC05(c);
        else if (a.prop == "C06")
            runC06(c);
        else if (a.prop == "C10")
            runC10(c);
        else if (a.prop == "C13")
            runC13(c);
        else if (a.prop == "C14")
            runC14(c);
        else if (a.prop == "C18")
            runC18(c);
        else
        {
            fprintf(stderr, "spline_driver: unknown property %s\n", a.prop.c_str());
            return 2;
        }
    }
    catch (const std::exception &e)
    {
        fprintf(stderr, "VF_HARNESS_ERROR %s (%s)\n", e.what(), g_case_desc);
        return 3;
    }
    c.finish();
    if (c.out != stdout)
        fclose(c.out);
    return 0;
}
