// Spline monitors.  Every function iterates cells (order x dim x N) x cases and routes all verdicts through Ctx.
#pragma once
#include "common/monitor.hpp"
#include "common/iface.hpp"
#include "common/oracle.hpp"
#include "common/gen.hpp"
#include "common/fd.hpp"

namespace vf
{
inline bool selected(const std::vector<int> &v, int x) { return v.empty() || std::find(v.begin(), v.end(), x) != v.end(); }

struct Cell
{
    int order, dim, N;
    std::string name;
};
inline std::vector<Cell> splineCellList(const Ctx &c, const std::vector<int> &nlist, int max_dim_quick = -1)
{
    std::vector<Cell> r;
    static const std::vector<int> quickDims{1, 2, 3, 4, 10};
    for (auto od : splineCells())
    {
        if (!selected(c.a.orders, od.first) || !selected(c.a.dims, od.second))
            continue;
        if (c.a.tier == "quick" && c.a.dims.empty() && !selected(quickDims, od.second))
            continue;
        (void)max_dim_quick;
        for (int N : nlist)
        {
            Cell cl{od.first, od.second, N, ""};
            cl.name = "o" + std::to_string(od.first) + "d" + std::to_string(od.second) + "N" + std::to_string(N);
            if (c.cellSelected(cl.name))
                r.push_back(cl);
        }
    }
    return r;
}

inline std::string keyJson(const Problem &p, const std::string &equation, int deriv)
{
    return JObj().i("order", p.order).i("dim", p.dim).i("segments", p.N).num("ratio", durRatio(p.T)).str("equation", equation).i("deriv", deriv).done();
}

// The effective problem the library sees when time is given as absolute time points.
inline Problem effectiveFromPoints(const Problem &p, std::vector<double> *tp_out = nullptr)
{
    Problem e = p;
    std::vector<double> tp = p.timePoints();
    for (int i = 0; i < p.N; ++i)
        e.T[i] = tp[i + 1] - tp[i];
    e.t0 = tp[0];
    if (tp_out)
        *tp_out = tp;
    return e;
}

// A spline for problem p obtained through a random route: one of the constructors, or a long-lived object with a
// short history of earlier problems (same or different N, either update overload) and read-only queries, finally
// updated with p.  viaPoints tells which time specification the final step used (the effective problem differs).
// Another split of the same horizon: same N, same start time and a bitwise identical end time, different interior knot
// times (re-timing inside a fixed horizon).  Returns false when no such split was found.
inline bool resplitSameHorizon(Rng &r, Problem &p)
{
    if (p.N < 2)
        return false;
    const double end = p.timePoints().back();
    for (int tries = 0; tries < 16; ++tries)
    {
        Problem q = p;
        int i = r.range(0, p.N - 1), j = r.range(0, p.N - 1);
        if (i == j)
            continue;
        if (r.coin() && q.T[i] != q.T[j])
            std::swap(q.T[i], q.T[j]);
        else
        {
            double d = std::ldexp(1.0, (int)std::floor(std::log2(0.25 * std::min(q.T[i], q.T[j]))));
            q.T[i] += d;
            q.T[j] -= d;
        }
        if (bitEqual(q.timePoints().back(), end) && !bitEqualVec(q.timePoints(), p.timePoints()))
        {
            p = q;
            return true;
        }
    }
    return false;
}

inline std::unique_ptr<ISpline> makeSplineHist(Ctx &c, Rng &r, const Problem &p, bool &viaPoints)
{
    int mode = r.range(0, 5);
    viaPoints = (mode % 2) == 1;
    if (mode == 0)
    {
        c.event("route.ctor_durations");
        return makeSplineDur(p);
    }
    if (mode == 1)
    {
        c.event("route.ctor_timepoints");
        return makeSplinePts(p);
    }
    auto L = makeSpline(p.order, p.dim);
    const int steps = r.range(1, 4);
    Problem prev;
    bool havePrev = false;
    for (int st = 0; st < steps; ++st)
    {
        Problem q = genProblem(r, p.order, p.dim, r.coin(0.6) ? p.N : r.range(1, 8));
        // optimisation loops re-update one object with partly unchanged inputs: same durations / same waypoints /
        // exactly the same problem again / the final problem's durations
        // the last intermediate step is the one whose relation to the final problem matters
        const bool lastStep = st == steps - 1;
        if (havePrev && r.coin(lastStep ? 0.25 : 0.5))
        {
            int k = r.range(0, 3);
            Problem q2 = genProblem(r, p.order, p.dim, prev.N);
            if (k == 0)
            {
                q2.T = prev.T;
                if (r.coin())
                    q2.t0 = prev.t0; // else: the same durations from another start time
            }
            else if (k == 3)
            {
                // durations (or waypoints) moved by a tiny amount (late iterations of an optimisation, FD probes)
                q2 = prev;
                double eps = std::pow(10.0, -(double)r.range(6, 12));
                if (r.coin())
                    for (auto &t : q2.T)
                        t *= 1.0 + eps * r.uni(-1, 1);
                else
                    q2.P(r.range(0, q2.N), r.range(0, q2.dim - 1)) += eps * (r.coin() ? 1 : -1);
            }
            else if (k == 1)
            {
                q2.P = prev.P;
                q2.bc = prev.bc;
            }
            else
                q2 = prev;
            q = q2;
        }
        else if (r.coin(lastStep ? 0.7 : 0.3))
        {
            q = genProblem(r, p.order, p.dim, p.N);
            q.T = p.T;
            q.t0 = p.t0;
            int k = r.range(0, 4);
            if (k == 0)
            {
                double eps = std::pow(10.0, -(double)r.range(7, 12));
                for (auto &t : q.T)
                    t *= 1.0 + eps * r.uni(-1, 1);
            }
            else if (k == 1 && resplitSameHorizon(r, q))
                c.event("history.same_horizon_other_split_before_final");
            else if (k == 2)
            {
                // exactly one duration differs from the final problem's (the last, the first or any one): re-timing of one
                // segment, a finite-difference probe on one duration
                int which = r.range(0, 2);
                int i = which == 0 ? p.N - 1 : (which == 1 ? 0 : r.range(0, p.N - 1));
                q.T[i] *= r.coin() ? r.uni(0.6, 1.6) : (1.0 + 1e-6 * r.uni(-1, 1));
                if (r.coin())
                {
                    q.P = p.P;
                    q.bc = p.bc;
                }
                c.event("history.one_duration_differs_before_final");
            }
            else if (k == 3)
            {
                // the final problem itself except for a tiny move of one waypoint coordinate (tiny compared with the norm of
                // all waypoints, possibly large compared with that coordinate's own values)
                q = p;
                double nrm = std::max(p.P.norm(), 1e-300);
                q.P(r.range(0, p.N), r.range(0, p.dim - 1)) += nrm * std::pow(10.0, -(double)r.range(13, 15)) * (r.coin() ? 1 : -1);
                c.event("history.tiny_waypoint_move_before_final");
            }
        }
        prev = q;
        havePrev = true;
        {
            // the overloads with the boundary argument omitted mean "zero boundary state"
            const int how = r.range(0, 9);
            if (how < 5)
                L->updateDur(q.T, q.P, q.t0, q.bc);
            else if (how < 8)
                L->updatePts(q.timePoints(), q.P, q.bc);
            else if (how == 8)
                L->updateDurDefaultBC(q.T, q.P, q.t0);
            else
                L->updatePtsDefaultBC(q.timePoints(), q.P);
        }
        // queries that populate lazy caches / internal workspaces
        if (r.coin(0.7))
            (void)L->energy();
        if (r.coin(0.5))
            (void)L->energyGrad(r.coin());
        if (r.coin(0.5))
        {
            (void)L->partialC(r.coin());
            (void)L->partialT(r.coin());
        }
        if (r.coin(0.7))
        {
            std::vector<double> cu = L->cumTimes();
            (void)L->trajEval(r.uni(cu.front(), cu.back()), r.range(0, q.ncoef() - 1));
        }
        if (r.coin(0.4))
        {
            MatrixXd g = MatrixXd::Constant(q.ncoef() * q.N, q.dim, 0.5);
            (void)L->propagate(g, VectorXd::Constant(q.N, 0.25), r.coin());
        }
    }
    bool zeroBC = true;
    for (int k = 1; k <= 3; ++k)
        zeroBC = zeroBC && p.bc.s(k).isZero(0) && p.bc.e(k).isZero(0);
    if (zeroBC && r.coin(0.6))
    {
        // zero boundary state requested by omitting the argument, on an object that held a non-zero one
        if (viaPoints)
            L->updatePtsDefaultBC(p.timePoints(), p.P);
        else
            L->updateDurDefaultBC(p.T, p.P, p.t0);
        c.event("route.reused_object_update_boundary_omitted");
        return L;
    }
    if (viaPoints)
        L->updatePts(p.timePoints(), p.P, p.bc);
    else
        L->updateDur(p.T, p.P, p.t0, p.bc);
    c.event(viaPoints ? "route.reused_object_update_timepoints" : "route.reused_object_update_durations");
    return L;
}

inline double scaledDiff(double a, double b, double scale)
{
    double d = std::fabs(a - b);
    if (d == 0)
        return 0;
    if (!(scale > 0))
        return INFINITY;
    double r = d / scale;
    return std::isnan(r) ? INFINITY : r;
}

// ------------------------------------------------------------------ C01
inline void checkC01Object(Ctx &c, ISpline &s, const Problem &e, const std::string &tag)
{
    const int N = e.N, dim = e.dim, sO = e.s();
    MatrixXd C = s.coeffs();
    bool shapeOk = c.require("C01.coeff_shape", C.rows() == e.ncoef() * N && C.cols() == dim, keyJson(e, "shape", 0), tag);
    if (!shapeOk)
        return;
    c.require("C01.finite", allFinite(C), keyJson(e, "finite", 0), tag);
    Residuals R = definingResiduals(e, C);
    c.check("C01.interp_resid", R.interp, 1e-9, keyJson(e, "interpolation", 0), tag + " knot=" + std::to_string(R.interp_at));
    c.check("C01.boundary_resid", R.boundary, 1e-9, keyJson(e, "boundary", 0), tag + " at=" + std::to_string(R.boundary_at));
    // through the public evaluators
    Scales sc = localScales(e, C);
    std::vector<double> cum = s.cumTimes();
    if (!c.require("C01.cum_size", (int)cum.size() == N + 1, keyJson(e, "bookkeeping", 0), tag))
        return;
    double worstEval = 0, worstBnd = 0;
    for (int i = 0; i < N; ++i)
    {
        VectorXd l0 = s.segEval(i, 0.0, 0), l1 = s.segEval(i, e.T[i], 0);
        VectorXd g0 = s.trajEval(cum[i], 0);
        for (int j = 0; j < dim; ++j)
        {
            double scale = (double)(std::fabs(e.P(i, j)) + std::fabs(e.P(i + 1, j)) + sc.sigma(i, j) + 1e-3L * sc.sglobal[j]);
            worstEval = std::max(worstEval, scaledDiff(l0(j), e.P(i, j), scale));
            worstEval = std::max(worstEval, scaledDiff(l1(j), e.P(i + 1, j), scale));
            worstEval = std::max(worstEval, scaledDiff(g0(j), e.P(i, j), scale));
        }
    }
    {
        // the same knots through the hinted evaluator, visited in an arbitrary order with one persistent hint
        Rng hr(hashProblem(e) ^ 0x5bd1e995ULL);
        std::vector<int> ord(N);
        for (int i = 0; i < N; ++i)
            ord[i] = i;
        hr.shuffle(ord);
        int hint = (int)(hr.u64() % (uint64_t)(N + 2)) - 1;
        bool okh = true;
        for (int i : ord)
        {
            VectorXd a = s.trajEvalHint(cum[i], &hint, 0), b = s.trajEval(cum[i], 0);
            okh = okh && bitEqualMat(a, b) && hint == i;
            if (i + 1 < N)
            {
                double tm = cum[i] + 0.5 * (cum[i + 1] - cum[i]);
                VectorXd a1 = s.trajEvalHint(tm, &hint, 1), b1 = s.trajEval(tm, 1);
                okh = okh && bitEqualMat(a1, b1);
            }
        }
        c.require("C01.knots_via_hinted_evaluate", okh, keyJson(e, "interpolation", 0), tag);
    }
    {
        // end knot through the global evaluator: last piece at local time cum[N]-cum[N-1]
        VectorXd gN = s.trajEval(cum[N], 0);
        VectorXd lN = s.segEval(N - 1, cum[N] - cum[N - 1], 0);
        c.require("C01.end_knot_route", bitEqualMat(gN, lN), keyJson(e, "interpolation", 0), tag + " end knot global vs local");
        // far beyond the end it keeps using the last piece, before the start the first piece
    }
    for (int d = 1; d <= sO - 1; ++d)
    {
        VectorXd b0 = s.segEval(0, 0.0, d), b1 = s.segEval(N - 1, e.T[N - 1], d), g0 = s.trajEval(cum[0], d);
        LD W = ffact(e.ncoef() - 1, d);
        for (int j = 0; j < dim; ++j)
        {
            double s0 = (double)(W * (sc.sigma(0, j) + 1e-3L * sc.sglobal[j]) / powl(e.T[0], d)) + std::fabs(e.bc.s(d)(j));
            double s1 = (double)(W * (sc.sigma(N - 1, j) + 1e-3L * sc.sglobal[j]) / powl(e.T[N - 1], d)) + std::fabs(e.bc.e(d)(j));
            worstBnd = std::max(worstBnd, scaledDiff(b0(j), e.bc.s(d)(j), s0));
            worstBnd = std::max(worstBnd, scaledDiff(g0(j), e.bc.s(d)(j), s0));
            worstBnd = std::max(worstBnd, scaledDiff(b1(j), e.bc.e(d)(j), s1));
        }
    }
    c.check("C01.interp_via_evaluate", worstEval, 1e-9, keyJson(e, "interpolation", 0), tag);
    c.check("C01.boundary_via_evaluate", worstBnd, 1e-9, keyJson(e, "boundary", 0), tag);
    // bookkeeping
    bool bk = true;
    std::string why;
    auto need = [&](bool cond, const char *w)
    {
        if (!cond && bk)
        {
            bk = false;
            why = w;
        }
    };
    need(s.isInitialized(), "isInitialized");
    need(s.numSegments() == N, "numSegments");
    need((int)s.numPoints() == N + 1, "numPoints");
    need(bitEqual(s.startTime(), e.t0), "startTime");
    need(bitEqual(cum[0], e.t0), "cum[0]");
    need(bitEqual(s.endTime(), cum[N]), "endTime");
    need(std::fabs(s.duration() - (cum[N] - e.t0)) <= ulpOf(cum[N] - e.t0), "duration");
    need(bitEqualVec(s.breakpoints(), cum), "breakpoints==cumTimes");
    need(bitEqualVec(s.timeSegments(), e.T), "timeSegments");
    need(bitEqualMat(s.spacePoints(), e.P), "spacePoints");
    need(s.trajInitialized() && s.trajNumSegments() == N && s.trajNumCoeffs() == e.ncoef(), "trajectory shape");
    LD acc = e.t0;
    double tmax = std::fabs(e.t0);
    for (int i = 0; i < N; ++i)
        tmax = std::max(tmax, std::fabs((double)(acc + (LD)e.T[i]))), acc += (LD)e.T[i];
    acc = e.t0;
    for (int i = 0; i < N; ++i)
    {
        acc += (LD)e.T[i];
        need(std::fabs((double)((LD)cum[i + 1] - acc)) <= (i + 1) * ulpOf(tmax), "knot time vs prefix sum");
        need(cum[i + 1] > cum[i], "knot times increasing");
    }
    BC b = s.boundary();
    for (int d = 1; d <= 3; ++d)
        need(bitEqualMat(b.s(d), e.bc.s(d)) && bitEqualMat(b.e(d), e.bc.e(d)), "boundary conditions echoed");
    c.require("C01.bookkeeping", bk, keyJson(e, "bookkeeping", 0), tag + " " + why);
}

inline void runC01(Ctx &c)
{
    const bool thorough = c.a.tier == "thorough";
    auto cells = splineCellList(c, thorough ? nListThorough() : nListQuick());
    const uint64_t per = c.count(thorough ? 1500 : 180);
    std::set<int> probed;
    for (auto &cl : cells)
    {
        for (uint64_t idx = 0; idx < per; ++idx)
        {
            if (!c.mine(idx))
                continue;
            Rng r = c.beginCase(cl.name, idx);
            int pat = 0, dc = 0;
            GenOpts gopt;
            gopt.huge_t0_prob = 0.06;
            Problem p = genProblem(r, cl.order, cl.dim, cl.N, gopt, &pat, &dc);
            int entry = r.range(0, 3); // 0 ctor-dur 1 ctor-pts 2 update-dur 3 update-pts
            bool defaultBC = r.coin(0.08);
            if (defaultBC)
                p.bc.setZero(p.dim);
            std::vector<double> tp;
            Problem eP = effectiveFromPoints(p, &tp);
            const Problem &e = (entry == 1 || entry == 3) ? eP : p;
            c.dump = [&]() { return JObj().i("entry", entry).b("default_bc", defaultBC).str("dur_pattern", kDurPatternNames[pat]).str("data_class", kDataClassNames[dc]).raw("problem", dumpProblem(p)).done(); };
            if (problemNontrivial(p))
                c.nontrivial(mix64(hashProblem(p), entry));
            if (idx < 2)
                c.wantSample();
            std::unique_ptr<ISpline> s;
            static const char *en[] = {"ctor_durations", "ctor_timepoints", "update_durations", "update_timepoints"};
            c.event(std::string("entry.") + en[entry]);
            c.event(std::string("dur_pattern.") + kDurPatternNames[pat]);
            c.event(std::string("data_class.") + kDataClassNames[dc]);
            if (entry == 0)
                s = defaultBC ? makeSplineDurDefaultBC(p) : makeSplineDur(p);
            else if (entry == 1)
                s = defaultBC ? makeSplinePtsDefaultBC(p) : makeSplinePts(p);
            else
            {
                s = makeSpline(cl.order, cl.dim);
                if (r.coin(0.6))
                {
                    // object previously used (and queried) for another problem, with the same or another segment count
                    Problem q = genProblem(r, cl.order, cl.dim, r.coin(0.5) ? cl.N : r.range(1, 8));
                    if (r.coin())
                        s->updateDur(q.T, q.P, q.t0, q.bc);
                    else
                        s->updatePts(q.timePoints(), q.P, q.bc);
                    if (r.coin(0.8))
                    {
                        (void)s->trajEval(q.t0 + 0.3 * q.T[0], r.range(0, 2));
                        (void)s->energy();
                    }
                    c.event("entry.update_on_reused_object");
                }
                if (entry == 2)
                {
                    if (defaultBC)
                        s->updateDurDefaultBC(p.T, p.P, p.t0);
                    else
                        s->updateDur(p.T, p.P, p.t0, p.bc);
                }
                else
                {
                    if (defaultBC)
                        s->updatePtsDefaultBC(tp, p.P);
                    else
                        s->updatePts(tp, p.P, p.bc);
                }
            }
            checkC01Object(c, *s, e, en[entry]);
            // the other time specification must give the same trajectory
            {
                std::unique_ptr<ISpline> o;
                if (entry == 1 || entry == 3)
                    o = makeSplineDur(eP); // durations = fl(diff of time points), start = first point
                else
                {
                    // time points whose differences reproduce e.T exactly are not available in general; compare on eP
                    o = makeSplinePts(p);
                    s = makeSplineDur(eP);
                }
                MatrixXd A = s->coeffs(), B = o->coeffs();
                double w = INFINITY;
                if (A.rows() == B.rows() && A.cols() == B.cols())
                {
                    Scales sc = localScales(eP, A);
                    w = 0;
                    for (int i = 0; i < eP.N; ++i)
                    {
                        double hk = 1;
                        for (int k = 0; k < eP.ncoef(); ++k)
                        {
                            for (int j = 0; j < eP.dim; ++j)
                            {
                                double scale = (double)(sc.sigma(i, j) + 1e-3L * sc.sglobal[j]) + (k == 0 ? std::fabs(A(i * eP.ncoef(), j)) : 0.0);
                                w = std::max(w, scaledDiff(A(i * eP.ncoef() + k, j) * hk, B(i * eP.ncoef() + k, j) * hk, scale));
                            }
                            hk *= eP.T[i];
                        }
                    }
                }
                c.check("C01.two_time_specs_agree", w, 1e-12, keyJson(eP, "time_spec", 0));
                c.require("C01.two_time_specs_knots", bitEqualVec(s->cumTimes(), o->cumTimes()) && bitEqual(s->startTime(), o->startTime()), keyJson(eP, "time_spec", 0));
            }
            // BoundaryConditions constructor routing (once per dim)
            if (!probed.count(cl.dim))
            {
                probed.insert(cl.dim);
                MatrixXd args(6, cl.dim);
                for (int i = 0; i < 6; ++i)
                    for (int j = 0; j < cl.dim; ++j)
                        args(i, j) = 100.0 * (i + 1) + j + 0.5;
                MatrixXd Z = MatrixXd::Zero(6, cl.dim);
                MatrixXd e0 = Z, e2 = Z, e4 = Z, e6 = Z;
                e2.row(0) = args.row(0); // start_vel
                e2.row(3) = args.row(1); // end_vel
                e4.row(0) = args.row(0);
                e4.row(1) = args.row(1);
                e4.row(3) = args.row(2);
                e4.row(4) = args.row(3);
                e6.row(0) = args.row(0);
                e6.row(1) = args.row(1);
                e6.row(2) = args.row(2);
                e6.row(3) = args.row(3);
                e6.row(4) = args.row(4);
                e6.row(5) = args.row(5);
                bool ok = bitEqualMat(bcCtorProbe(cl.dim, 0, args), e0) && bitEqualMat(bcCtorProbe(cl.dim, 2, args), e2) &&
                          bitEqualMat(bcCtorProbe(cl.dim, 4, args), e4) && bitEqualMat(bcCtorProbe(cl.dim, 6, args), e6);
                c.require("C01.bc_constructor_routing", ok, JObj().i("dim", cl.dim).str("equation", "bc_ctor").done());
            }
        }
    }
}

// ------------------------------------------------------------------ C02
// Hermite interpolant on one segment: degree 2s-1 polynomial with given value and derivatives 1..s-1 at both ends.
inline std::vector<LD> hermiteSegment(int s, LD h, const std::vector<LD> &left, const std::vector<LD> &right)
{
    // solve in normalised time u=t/h: a_k; constraints: d-th derivative at 0: d! a_d = left[d] h^d ; at 1: sum ffact(k,d) a_k = right[d] h^d
    const int nc = 2 * s;
    Eigen::Matrix<LD, Eigen::Dynamic, Eigen::Dynamic> A = Eigen::Matrix<LD, Eigen::Dynamic, Eigen::Dynamic>::Zero(nc, nc);
    Eigen::Matrix<LD, Eigen::Dynamic, 1> b(nc);
    LD hd = 1;
    for (int d = 0; d < s; ++d)
    {
        A(d, d) = ffact(d, d);
        b(d) = left[d] * hd;
        for (int k = d; k < nc; ++k)
            A(s + d, k) = ffact(k, d);
        b(s + d) = right[d] * hd;
        hd *= h;
    }
    Eigen::Matrix<LD, Eigen::Dynamic, 1> a = A.fullPivLu().solve(b);
    std::vector<LD> cf(nc);
    LD hk = 1;
    for (int k = 0; k < nc; ++k)
    {
        cf[k] = a(k) / hk;
        hk *= h;
    }
    return cf;
}
inline PolyVal energyExactLD(const LD *c, int nc, int s, LD h)
{
    PolyVal r;
    for (int j = s; j < nc; ++j)
        for (int k = s; k < nc; ++k)
        {
            int e = j + k - 2 * s + 1;
            LD term = ffact(j, s) * ffact(k, s) * c[j] * c[k] * powl(h, e) / (LD)e;
            r.value += term;
            r.abssum += fabsl(term);
        }
    return r;
}

inline void runC02(Ctx &c)
{
    const bool thorough = c.a.tier == "thorough";
    static const std::vector<int> nT{1, 2, 3, 4, 5, 6, 7, 8, 9, 10, 16, 32, 64};
    auto cells = splineCellList(c, thorough ? nT : nListQuick());
    for (auto &cl : cells)
    {
        double nominal = thorough ? (cl.N <= 10 ? 400 : (cl.N <= 16 ? 60 : (cl.N <= 32 ? 12 : 4))) : 60;
        const uint64_t per = c.count(nominal);
        for (uint64_t idx = 0; idx < per; ++idx)
        {
            if (!c.mine(idx))
                continue;
            Rng r = c.beginCase(cl.name, idx);
            int pat = 0, dc = 0;
            GenOpts go;
            // walk the duration patterns systematically so that every first/last placement is visited in every cell
            go.dur_pattern = (int)(idx % kNumDurPatterns);
            go.huge_t0_prob = 0.08;
            Problem p = genProblem(r, cl.order, cl.dim, cl.N, go, &pat, &dc);
            c.dump = [&]() { return JObj().str("dur_pattern", kDurPatternNames[pat]).str("data_class", kDataClassNames[dc]).raw("problem", dumpProblem(p)).done(); };
            if (problemNontrivial(p))
                c.nontrivial(hashProblem(p));
            if (idx < 1)
                c.wantSample();
            c.event(std::string("dur_pattern.") + kDurPatternNames[pat]);
            bool viaPts = false;
            auto s = makeSplineHist(c, r, p, viaPts);
            Problem e = viaPts ? effectiveFromPoints(p) : p;
            MatrixXd C = s->coeffs();
            if (!c.require("C02.coeff_shape", C.rows() == e.ncoef() * e.N && C.cols() == e.dim, keyJson(e, "shape", 0)))
                continue;
            Residuals R = definingResiduals(e, C);
            const int sO = e.s();
            for (int d = 1; d <= 2 * sO - 2; ++d)
                c.check("C02.continuity_d" + std::to_string(d), R.cont[d], 1e-6, keyJson(e, "continuity", d), "knot=" + std::to_string(R.cont_at[d]));
            if (dc == 0 || dc == 3 || dc == 4 || dc == 5)
                for (int d = 1; d <= 2 * sO - 2; ++d)
                    c.check("C02.relative_jump_d" + std::to_string(d), R.contRel[d], 1e-6, keyJson(e, "continuity_relative", d), "knot=" + std::to_string(R.contRel_at[d]));
            // continuity through the public evaluator (left/right limits of Segment::evaluate)
            if (e.N >= 2)
            {
                Scales sc = localScales(e, C);
                double w = 0;
                int wd = 0;
                for (int i = 1; i < e.N; ++i)
                    for (int d = 1; d <= 2 * sO - 2; ++d)
                    {
                        VectorXd L = s->segEval(i - 1, e.T[i - 1], d), Rr = s->segEval(i, 0.0, d);
                        LD W = ffact(e.ncoef() - 1, d);
                        LD hm = std::min(e.T[i - 1], e.T[i]);
                        for (int j = 0; j < e.dim; ++j)
                        {
                            double scale = (double)(W * (sc.sigma(i - 1, j) / powl(e.T[i - 1], d) + sc.sigma(i, j) / powl(e.T[i], d) + 1e-3L * sc.sglobal[j] / powl(hm, d)));
                            double v = scaledDiff(L(j), Rr(j), scale);
                            if (v > w)
                            {
                                w = v;
                                wd = d;
                            }
                        }
                    }
                c.check("C02.continuity_via_evaluate", w, 1e-6, keyJson(e, "continuity", wd));
            }
            // dense oracle
            MatrixXld Cref = denseReference(e, false);
            int at = -1;
            double ce = coeffError(e, C, Cref, 1e-3, &at);
            c.check("C02.coeffs_vs_dense_oracle", ce, 3e-7, keyJson(e, "coefficients", 0), "segment=" + std::to_string(at));
            if (thorough && (idx % 16 == 0) && e.N <= 16)
            {
                MatrixXld Cq = denseReference(e, true);
                double oo = 0;
                {
                    // oracle self-agreement (long double vs float128)
                    MatrixXd Cd = Cref.cast<double>();
                    oo = coeffError(e, Cd, Cq, 1e-3);
                }
                c.check("C02.oracle_self_agreement", oo, 1e-7, keyJson(e, "oracle", 0));
            }
            // sampled competitors: same knots, same waypoints, same boundary states, perturbed interior knot derivatives
            {
                // spline energy from the published coefficients, per coordinate
                for (int j = 0; j < e.dim && j < 3; ++j)
                {
                    LD Espl = 0, Eabs = 0;
                    for (int i = 0; i < e.N; ++i)
                    {
                        PolyVal ev = energyExact(&C(i * e.ncoef(), j), (int)C.outerStride() == 0 ? 1 : (int)(&C(1, j) - &C(0, j)), e.ncoef(), sO, e.T[i]);
                        Espl += ev.value;
                        Eabs += ev.abssum;
                    }
                    // knot derivative values of the published spline (right limits; last knot left limit)
                    std::vector<std::vector<LD>> knot(e.N + 1, std::vector<LD>(sO));
                    for (int i = 0; i <= e.N; ++i)
                        for (int d = 0; d < sO; ++d)
                        {
                            if (i < e.N)
                                knot[i][d] = polyDerivD(&C(i * e.ncoef(), j), (int)(&C(1, j) - &C(0, j)), e.ncoef(), 0, d).value;
                            else
                                knot[i][d] = polyDerivD(&C((e.N - 1) * e.ncoef(), j), (int)(&C(1, j) - &C(0, j)), e.ncoef(), e.T[e.N - 1], d).value;
                        }
                    for (int trial = 0; trial < 4; ++trial)
                    {
                        auto kn = knot;
                        double mag = std::pow(10.0, -(double)r.range(1, 4));
                        bool any = false;
                        for (int i = 1; i < e.N; ++i)
                            for (int d = 1; d < sO; ++d)
                                if (r.coin(0.6))
                                {
                                    LD sc = fabsl(knot[i][d]) + (LD)(1.0 / std::pow(std::min(e.T[i - 1], e.T[i]), d));
                                    kn[i][d] += (LD)(mag * r.normal()) * sc;
                                    any = true;
                                }
                        LD Ec = 0, Ecabs = 0;
                        if (any)
                        {
                            for (int i = 0; i < e.N; ++i)
                            {
                                std::vector<LD> cf = hermiteSegment(sO, e.T[i], kn[i], kn[i + 1]);
                                PolyVal ev = energyExactLD(cf.data(), e.ncoef(), sO, e.T[i]);
                                Ec += ev.value;
                                Ecabs += ev.abssum;
                            }
                        }
                        else
                        {
                            // bump competitor on one segment: p + eps t^s (h-t)^s
                            int i = r.range(0, e.N - 1);
                            LD h = e.T[i];
                            std::vector<LD> cf(2 * sO + 1, 0);
                            for (int k = 0; k < e.ncoef(); ++k)
                                cf[k] = C(i * e.ncoef() + k, j);
                            // t^s (h-t)^s = sum_m binom(s,m) h^(s-m) (-1)^m t^(s+m)
                            LD epsv = (LD)(mag * r.normal()) / powl(h, 2 * sO) * (fabsl(knot[i][0]) + 1);
                            LD binom = 1;
                            for (int m = 0; m <= sO; ++m)
                            {
                                cf[sO + m] += epsv * binom * powl(h, sO - m) * ((m % 2) ? -1 : 1);
                                binom = binom * (sO - m) / (m + 1);
                            }
                            for (int q = 0; q < e.N; ++q)
                            {
                                PolyVal ev = (q == i) ? energyExactLD(cf.data(), (int)cf.size(), sO, h)
                                                      : energyExact(&C(q * e.ncoef(), j), (int)(&C(1, j) - &C(0, j)), e.ncoef(), sO, e.T[q]);
                                Ec += ev.value;
                                Ecabs += ev.abssum;
                            }
                            c.event("competitor.bump");
                        }
                        if (any)
                            c.event("competitor.hermite");
                        // competitor must not have lower energy
                        LD deficit = Espl - Ec; // > 0 would refute minimality
                        double v = (deficit <= 0) ? 0.0 : (double)(deficit / (Eabs + Ecabs + 1e-300L));
                        c.check("C02.competitor_not_lower", v, 1e-9, keyJson(e, "minimality", 0), "coord=" + std::to_string(j));
                    }
                }
            }
        }
    }
}

// ------------------------------------------------------------------ C04
inline Problem genWideDurations(Rng &r, int order, int dim, int N)
{
    GenOpts go;
    go.ratio_cap = 1.0; // overwritten below
    Problem p = genProblem(r, order, dim, N, go);
    int mode = r.range(0, 3);
    for (auto &t : p.T)
    {
        if (mode == 0)
            t = r.logUni(1e-3, 1e3);
        else if (mode == 1)
            t = r.logUni(0.1, 10);
        else if (mode == 2)
            t = r.logUni(1e-3, 1e-1);
        else
            t = r.logUni(10, 1e3);
    }
    return p;
}

inline void runC04(Ctx &c)
{
    const bool thorough = c.a.tier == "thorough";
    static const std::vector<int> nq4{1, 2, 3, 4, 5, 6, 7, 8, 9, 10, 33, 64, 65, 100};
    static const std::vector<int> nt4{1, 2, 3, 4, 5, 6, 7, 8, 9, 10, 16, 31, 32, 33, 63, 64, 65, 100, 128, 200};
    auto cells = splineCellList(c, thorough ? nt4 : nq4);
    const uint64_t per = c.count(thorough ? 800 : 100);
    for (auto &cl : cells)
        for (uint64_t idx = 0; idx < per; ++idx)
        {
            if (!c.mine(idx))
                continue;
            Rng r = c.beginCase(cl.name, idx);
            GenOpts g4;
            g4.huge_t0_prob = 0.06;
            Problem p = (idx % 3 == 0) ? genProblem(r, cl.order, cl.dim, cl.N, g4) : genWideDurations(r, cl.order, cl.dim, cl.N);
            c.dump = [&]() { return dumpProblem(p); };
            bool viaPts = false;
            auto s = makeSplineHist(c, r, p, viaPts);
            const std::vector<double> tpReq = p.timePoints();
            if (viaPts)
                p = effectiveFromPoints(p);
            MatrixXd C = s->coeffs();
            if (!c.require("C04.coeff_shape", C.rows() == p.ncoef() * p.N && C.cols() == p.dim, keyJson(p, "shape", 0)))
                continue;
            {
                // the trajectory whose integral is meant is the published one: its pieces live on the requested knot times
                // (the integral below pairs the published coefficients with the requested durations)
                std::vector<double> bp = s->breakpoints();
                bool ok = (int)bp.size() == p.N + 1;
                double tmax = 0;
                for (double t : tpReq)
                    tmax = std::max(tmax, std::fabs(t));
                for (int i = 0; ok && i <= p.N; ++i)
                    ok = std::fabs(bp[i] - tpReq[i]) <= (i + 1) * ulpOf(tmax);
                c.require("C04.published_knots_are_the_requested_ones", ok, keyJson(p, "knots", 0));
            }
            if (!allFinite(C))
            {
                // overflow of the solver on extreme durations: the property quantifies over coefficient sets the solver
                // can produce; non-finite sets carry no integral. counted, not judged.
                c.event("skipped.nonfinite_coefficients");
                continue;
            }
            if (problemNontrivial(p))
                c.nontrivial(hashProblem(p));
            if (idx < 1)
                c.wantSample();
            const int stride = (int)(C.rows() > 1 ? (&C(1, 0) - &C(0, 0)) : 1);
            LD Eref = 0, Eabs = 0;
            std::vector<LD> perCoord(p.dim, 0);
            for (int j = 0; j < p.dim; ++j)
                for (int i = 0; i < p.N; ++i)
                {
                    PolyVal ev = energyExact(&C(i * p.ncoef(), j), stride, p.ncoef(), p.s(), p.T[i]);
                    Eref += ev.value;
                    Eabs += ev.abssum;
                    perCoord[j] += ev.value;
                }
            double E = s->energy();
            double rel = (Eabs > 0) ? (double)(fabsl((LD)E - Eref) / Eabs) : (E == 0 ? 0.0 : INFINITY);
            c.check("C04.energy_vs_exact_integral", rel, 1e-11, keyJson(p, "energy", 0));
            double neg = (E >= 0) ? 0.0 : (Eabs > 0 ? (double)(-(LD)E / Eabs) : INFINITY);
            c.check("C04.energy_nonnegative", neg, 1e-11, keyJson(p, "energy_sign", 0));
            c.require("C04.energy_finite", std::isfinite(E), keyJson(p, "energy", 0));
            // quadrature cross-check of the oracle itself (Gauss-Legendre 8 nodes on the differentiated polynomial)
            if (idx % 8 == 0)
            {
                static const LD gx[4] = {0.1834346424956498049394761L, 0.5255324099163289858177390L, 0.7966664774136267395915539L, 0.9602898564975362316835609L};
                static const LD gw[4] = {0.3626837833783619829651504L, 0.3137066458778872873379622L, 0.2223810344533744705443560L, 0.1012285362903762591525314L};
                LD Eq = 0;
                for (int j = 0; j < p.dim; ++j)
                    for (int i = 0; i < p.N; ++i)
                    {
                        LD h = p.T[i];
                        for (int q = 0; q < 4; ++q)
                            for (int sg = -1; sg <= 1; sg += 2)
                            {
                                LD t = h * (1 + sg * gx[q]) / 2;
                                LD v = polyDerivD(&C(i * p.ncoef(), j), stride, p.ncoef(), t, p.s()).value;
                                Eq += gw[q] * v * v * h / 2;
                            }
                    }
                double relq = (Eabs > 0) ? (double)(fabsl(Eq - Eref) / Eabs) : 0.0;
                c.check("C04.oracle_closed_form_vs_quadrature", relq, 1e-15, keyJson(p, "oracle", 0));
            }
            // additivity over coordinates: D one-dimensional splines
            if (p.dim > 1 && haveSplineCell(p.order, 1))
            {
                LD sum = 0;
                double worstCoord = 0;
                for (int j = 0; j < p.dim; ++j)
                {
                    Problem q = p;
                    q.dim = 1;
                    q.P = p.P.col(j);
                    q.bc.setZero(1);
                    for (int d = 1; d <= 3; ++d)
                    {
                        q.bc.s(d)(0) = p.bc.s(d)(j);
                        q.bc.e(d)(0) = p.bc.e(d)(j);
                    }
                    double Ej = makeSplineDur(q)->energy();
                    sum += Ej;
                    worstCoord = std::max(worstCoord, Eabs > 0 ? (double)(fabsl((LD)Ej - perCoord[j]) / Eabs) : 0.0);
                }
                c.check("C04.energy_additive_over_coordinates", Eabs > 0 ? (double)(fabsl((LD)E - sum) / Eabs) : 0.0, 1e-10, keyJson(p, "energy_additivity", 0));
                c.check("C04.coordinate_energy_vs_integral", worstCoord, 1e-10, keyJson(p, "energy_additivity", 0));
            }
        }
}

// ------------------------------------------------------------------ C18
inline std::string residKey(const Problem &p, const Residuals &R, double tol, std::string *eqOut, int *dOut, double *vOut)
{
    // the worst exceeding equation
    double worst = -1;
    std::string eq = "none";
    int dd = 0;
    if (R.interp > worst)
    {
        worst = R.interp;
        eq = "interpolation";
        dd = 0;
    }
    if (R.boundary > worst)
    {
        worst = R.boundary;
        eq = "boundary";
        dd = 0;
    }
    for (int d = 1; d <= 2 * p.s() - 2; ++d)
        if (R.cont[d] > worst)
        {
            worst = R.cont[d];
            eq = "continuity";
            dd = d;
        }
    (void)tol;
    if (eqOut)
        *eqOut = eq;
    if (dOut)
        *dOut = dd;
    if (vOut)
        *vOut = worst;
    return keyJson(p, eq, dd);
}

inline void c18Judge(Ctx &c, const Problem &p, const MatrixXd &C, const std::string &how)
{
    Residuals R = definingResiduals(p, C);
    const double tol = 1e-3;
    std::string benign;
    bool anyExceed = R.interp > tol || R.boundary > tol || !(R.interp <= tol) || !(R.boundary <= tol);
    for (int d = 1; d <= 2 * p.s() - 2; ++d)
        anyExceed = anyExceed || !(R.contRel[d] <= tol);
    if (anyExceed)
    {
        // show that the input is benign: the float128 dense oracle satisfies the same equations to 1e-10
        MatrixXld Cq = denseReference(p, true);
        Residuals Rq = definingResidualsLD(p, Cq);
        double wq = std::max(std::max(Rq.interp, Rq.boundary), Rq.contRelMax(1, 2 * p.s() - 2));
        benign = " oracle_residual=" + std::to_string(wq);
        c.check("C18.oracle_meets_equations_on_exceeding_input", wq, 1e-10, keyJson(p, "oracle", 0));
        c.event("exceedances_total");
    }
    c.check("C18.interp_resid", R.interp, tol, keyJson(p, "interpolation", 0), how + benign);
    c.check("C18.boundary_resid", R.boundary, tol, keyJson(p, "boundary", 0), how + benign);
    // report each continuity order separately so that the key carries the derivative
    for (int d = 1; d <= 2 * p.s() - 2; ++d)
        c.check("C18.continuity_d" + std::to_string(d), R.contRel[d], tol, keyJson(p, "continuity", d), how + benign + " knot=" + std::to_string(R.contRel_at[d]));
    c.require("C18.finite", allFinite(C), keyJson(p, "finite", 0), how);
}

inline double c18Objective(const Problem &p, const MatrixXd &C)
{
    Residuals R = definingResiduals(p, C);
    double w = std::max(R.interp, R.boundary);
    w = std::max(w, R.contRelMax(1, 2 * p.s() - 2));
    return w;
}

inline void runC18(Ctx &c)
{
    const bool thorough = c.a.tier == "thorough";
    static const std::vector<int> nl{2, 3, 4, 5, 6, 7, 8, 9, 10, 11, 12};
    static const std::vector<int> nlT{2, 3, 4, 5, 6, 7, 8, 9, 10, 11, 12, 16, 24, 32};
    std::vector<int> dimsel = c.a.dims;
    auto cells = splineCellList(c, thorough ? nlT : nl);
    const uint64_t per = c.count(thorough ? 600 : 50);
    static const double ratios[] = {1.5, 4, 10, 16, 25, 40, 64, 100};
    // recorded witnesses of known finding KF1 (known_findings.txt): evaluated on every run so that the finding is
    // re-observed (or seen to be gone) independently of what the random workload happens to reach
    if (haveSplineCell(7, 1) && selected(c.a.orders, 7) && selected(c.a.dims, 1) && c.cellSelected("witness"))
    {
        struct W
        {
            std::vector<double> T, P; // P row by row
            std::vector<double> bc;   // sv sa sj ev ea ej, each with dim entries
            int dim = 1;
        };
        static const std::vector<W> ws = {
            {{24.247189657973784, 23.79350859226772, 0.24247189657973783, 24.247189657973784, 24.247189657973784},
             {-1.2385869212514344, 0.06425657509950694, -0.16936828871609005, 0.6023592134744258, 0.11680691221049957, 0.05712806918950258},
             {-0.10435497444288232, -0.044317491384877956, 0.2818775092229105, 0.06168623062992057, -0.10956054570774054, 0.018022511543337706}},
            {{38.18772612082515, 0.38187726120825144, 38.18772612082515, 0.38187726120825144, 38.18772612082515, 38.18772612082515},
             {0.8203068459108116, 0.869068344278644, -1.1765564538724707, -1.529328537962376, 2.59654056942635, 2.710200774070628, -0.9341058610808535},
             {-0.6467041219374614, -4.234891482745426, -1.2192090464652408, -3.5533208504641456, 0.6871314865580583, -1.5810945363545699}},
            // KF1 at its boundary (found by the adversarial search of the thorough tier, seed 2): duration ratio exactly 16,
            // 24 segments, relative jump of the 6th derivative 2.1e-3 at knot 7
            {{0x1.11b3b1076a19bp+2, 0x1.adc1bea22ce9ap+1, 0x1.256d45b187419p+2, 0x1.050c59191200bp-1, 0x1.256d45b187419p+2, 0x1.256d45b187419p+2, 0x1.256d45b187419p+2, 0x1.256d45b187419p-2, 0x1.256d45b187419p+2, 0x1.256d45b187419p+2, 0x1.256d45b187419p+2, 0x1.256d45b187419p+2, 0x1.256d45b187419p-2, 0x1.256d45b187419p-2, 0x1.256d45b187419p+2, 0x1.95190c3867ebbp-2, 0x1.256d45b187419p+2, 0x1.256d45b187419p-2, 0x1.256d45b187419p-2, 0x1.0e4557e201359p+1, 0x1.256d45b187419p+2, 0x1.7884e113f9fcfp+1, 0x1.256d45b187419p-2, 0x1.256d45b187419p-2},
             {-0x1.203f78ef694cdp-2, 0x1.426ee16cb75a5p-2, 0x1.4c37cb33d738bp+0, 0x1.1ecc2f11b8bd3p-1, 0x1.1c82dfc6014c7p+0, -0x1.85a74e1fb2057p+0, 0x1.5cbdf5496edf6p-2, -0x1.263d29f1f6d06p-1, -0x1.bd0d55ecb256bp+0, 0x1.9184cabc9dc9cp-5, 0x1.6dce39bb1e6b5p-1, 0x1.37dae6a24f94p-2, -0x1.96fded70a08dbp-1, -0x1.a2fadd86cfa17p-2, 0x1.63d0c3ce0d30bp-3, 0x1.9dad1654aa727p-2, 0x1.3ca140ff9b5fap+1, 0x1.4055a9433cc4p-1, 0x1.83f5a58732b0fp+0, 0x1.66b1799ac66c3p+1, 0x1.7182f77b439a3p+0, 0x1.a57499219628cp-3, -0x1.25049c289e19cp-2, 0x1.03edb4f7ae808p-1, 0x1.64fa3c6a12632p-1, -0x1.ff507f0e7c51fp-3, 0x1.1706c03a821ddp+0, -0x1.5dfa60f9a57c6p+0, -0x1.e11b3b1aa141p+0, 0x1.237302b8cc6fdp-2, 0x1.6f1e1578318e3p-2, 0x1.281f708a7f246p+0, 0x1.3917a97401bfp-2, -0x1.c865fb1deeeaap-1, -0x1.1cb2d99dbfbe4p-3, 0x1.d99d3eae19586p-4, -0x1.d3fecfa4ad1e3p-1, -0x1.fa910a6aa2ddp-2, 0x1.f5c6e84dbd84cp-2, 0x1.f14f7935524c9p-5, 0x1.d38cda20a11f3p-2, 0x1.2f367fe4e8fb3p+0, -0x1.0fb4b516c3ff3p-2, 0x1.27851e7eada4fp-2, 0x1.0f7bd90775e5dp-5, 0x1.40a9e68064492p-2, 0x1.3e37653b47639p-1, 0x1.dd7f95b6d6f5ep-4, 0x1.a8a39a445f4p+0, -0x1.4eca80a922f51p-2},
             {-0x1.a9d02e745ca58p-2, 0x1.710287e523ff8p+2, -0x1.5e589af83ed02p+1, 0x1.3c868151c5f8fp+1, 0x1.07c049049b95dp-5, 0x1.9401cb7b6d612p-2, 0x1.5b9191a6bea5ep+1, 0x1.e077c56db12d2p-1, -0x1.0a1a20796a1afp+2, -0x1.467bc12073918p+2, -0x1.45e98a83357dp+2, -0x1.9d78a94c70b0ep+2},
             2},
        };
        for (uint64_t idx = 0; idx < ws.size(); ++idx)
        {
            if (!c.mine(idx))
                continue;
            (void)c.beginCase("witness", idx);
            Problem p;
            p.order = 7;
            p.dim = ws[idx].dim;
            if (!haveSplineCell(7, p.dim))
                continue;
            p.N = (int)ws[idx].T.size();
            p.T = ws[idx].T;
            p.t0 = 0;
            p.P = MatrixXd::Zero(p.N + 1, p.dim);
            for (int i = 0; i <= p.N; ++i)
                for (int j = 0; j < p.dim; ++j)
                    p.P(i, j) = ws[idx].P[i * p.dim + j];
            p.bc.setZero(p.dim);
            for (int j = 0; j < p.dim; ++j)
            {
                p.bc.sv(j) = ws[idx].bc[0 * p.dim + j];
                p.bc.sa(j) = ws[idx].bc[1 * p.dim + j];
                p.bc.sj(j) = ws[idx].bc[2 * p.dim + j];
                p.bc.ev(j) = ws[idx].bc[3 * p.dim + j];
                p.bc.ea(j) = ws[idx].bc[4 * p.dim + j];
                p.bc.ej(j) = ws[idx].bc[5 * p.dim + j];
            }
            c.dump = [&]() { return JObj().str("mode", "recorded_witness").raw("problem", dumpProblem(p)).done(); };
            c.nontrivial(hashProblem(p));
            c.event("witnesses_evaluated");
            c18Judge(c, p, makeSplineDur(p)->coeffs(), "witness");
        }
    }
    for (auto &cl : cells)
    {
        if (c.a.dims.empty() && !(cl.dim == 1 || cl.dim == 3 || (thorough && (cl.dim == 2 || cl.dim == 6))))
            continue;
        for (uint64_t idx = 0; idx < per; ++idx)
        {
            if (!c.mine(idx))
                continue;
            Rng r = c.beginCase(cl.name, idx);
            GenOpts go;
            double R = ratios[idx % 8];
            if (r.coin(0.3))
                R = r.logUni(1.0, 100.0);
            go.ratio_cap = R;
            go.base_lo = 1e-3;
            go.base_hi = 10.0;
            go.dur_pattern = (int)((idx / 8) % kNumDurPatterns);
            // dense data only: the relative-jump measure is meaningless where a derivative vanishes identically
            // (a coordinate that is constant but has non-zero boundary derivatives decays away from the ends like sparse
            // data: only used for few segments and moderate duration ratios, where nothing has decayed to rounding level yet;
            // at ratio 100 even the float128 reference sees a vanishing derivative there)
            static const int denseClasses[] = {0, 0, 3, 4, 5, 7};
            go.data_class = denseClasses[r.range(0, (cl.N <= 5 && R <= 16) ? 5 : 4)];
            int pat = 0, dc = 0;
            Problem p = genProblem(r, cl.order, cl.dim, cl.N, go, &pat, &dc);
            // keep every duration inside the optimizer's accepted range and the ratio within 100
            c.dump = [&]() { return JObj().str("dur_pattern", kDurPatternNames[pat]).str("data_class", kDataClassNames[dc]).raw("problem", dumpProblem(p)).done(); };
            if (problemNontrivial(p))
                c.nontrivial(hashProblem(p));
            if (idx < 1)
                c.wantSample();
            char rb[32];
            snprintf(rb, sizeof rb, "ratio_le_%g", ratios[std::min<int>(7, (int)(std::lower_bound(ratios, ratios + 8, durRatio(p.T) * (1 - 1e-12)) - ratios))]);
            c.event(rb);
            // fresh or reused object, either overload; the time-point overload means durations tp[i+1]-tp[i]
            bool viaPts = false;
            auto s = makeSplineHist(c, r, p, viaPts);
            Problem pj = p;
            if (viaPts)
            {
                std::vector<double> tp = p.timePoints();
                for (int i = 0; i < p.N; ++i)
                    pj.T[i] = tp[i + 1] - tp[i];
            }
            c18Judge(c, pj, s->coeffs(), "random");
        }
        // adversarial hill-climbing on the duration vector at a fixed ratio (thorough, and a little in quick)
        const uint64_t climbs = c.count(thorough ? 6 : 1);
        for (uint64_t idx = 0; idx < climbs; ++idx)
        {
            uint64_t id2 = 1000000 + idx;
            if (!c.mine(id2))
                continue;
            if (cl.N < 3)
                continue;
            Rng r = c.beginCase(cl.name, id2);
            static const double advR[] = {8, 16, 16, 30, 60, 100};
            double R = advR[idx % 6];
            GenOpts go;
            go.ratio_cap = R;
            go.data_class = 0;
            Problem p = genProblem(r, cl.order, cl.dim, cl.N, go);
            double b = *std::min_element(p.T.begin(), p.T.end());
            c.dump = [&]() { return JObj().str("mode", "adversarial").raw("problem", dumpProblem(p)).done(); };
            double best = c18Objective(p, makeSplineDur(p)->coeffs());
            const int iters = thorough ? 300 : 60;
            for (int it = 0; it < iters; ++it)
            {
                Problem q = p;
                int k = r.range(0, q.N - 1);
                int mv = r.range(0, 3);
                if (mv == 0)
                    q.T[k] = b;
                else if (mv == 1)
                    q.T[k] = b * R;
                else if (mv == 2)
                    q.T[k] = std::min(b * R, std::max(b, q.T[k] * std::exp(0.5 * r.normal())));
                else
                {
                    int i2 = r.range(0, q.N);
                    int j2 = r.range(0, q.dim - 1);
                    q.P(i2, j2) += r.normal();
                }
                // keep min == b so that the ratio stays <= R
                double mn = *std::min_element(q.T.begin(), q.T.end());
                if (mn > b)
                    q.T[r.range(0, q.N - 1)] = b;
                double v = c18Objective(q, makeSplineDur(q)->coeffs());
                if (v > best)
                {
                    best = v;
                    p = q;
                }
            }
            c.event("adversarial_climbs");
            if (problemNontrivial(p))
                c.nontrivial(hashProblem(p));
            c18Judge(c, p, makeSplineDur(p)->coeffs(), "adversarial");
            // margin statistic for the evidence: worst residual the search reaches below the boundary of known finding KF1
            // (the boundary itself, ratio 16, belongs to the finding: witness 3 above)
            if (R < 16)
                c.check("C18.adversarial_margin_ratio_lt_16", best, 1e-3, keyJson(p, "margin", 0));
        }
    }
}

} // namespace vf
#include "spline_monitors2.hpp"
