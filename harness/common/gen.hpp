// Workload generators (DESIGN.md section 5): duration patterns, data classes, start-time classes.
#pragma once
#include "iface.hpp"
#include "monitor.hpp"
#include "rng.hpp"

namespace vf
{
inline double ratioCap(int order) { return order == 3 ? 1000.0 : (order == 5 ? 20.0 : 4.0); }

static const char *kDurPatternNames[] = {"uniform", "loguniform", "one_short", "one_long", "alternating", "ramp_up",
                                         "ramp_down", "short_first", "short_last", "long_first", "long_last", "equal",
                                         "two_level_random", "nearly_equal", "mean_equals_first"};
constexpr int kNumDurPatterns = 15;

// durations in [b, b*R]
inline std::vector<double> genDurations(Rng &r, int N, double b, double R, int pattern)
{
    std::vector<double> T(N, b);
    const double hi = b * R;
    auto clampv = [&](double v) { return std::min(hi, std::max(b, v)); };
    switch (pattern)
    {
    case 0:
        for (auto &t : T)
            t = r.uni(b, hi);
        break;
    case 1:
        for (auto &t : T)
            t = r.logUni(b, hi);
        break;
    case 2: // one short among long
    {
        for (auto &t : T)
            t = clampv(hi * r.uni(0.7, 1.0));
        T[r.range(0, N - 1)] = b;
        break;
    }
    case 3:
    {
        for (auto &t : T)
            t = clampv(b * r.uni(1.0, 1.3));
        T[r.range(0, N - 1)] = hi;
        break;
    }
    case 4:
        for (int i = 0; i < N; ++i)
            T[i] = (i % 2 == 0) ? b : hi;
        if (r.coin())
            for (int i = 0; i < N; ++i)
                T[i] = (i % 2 == 1) ? b : hi;
        break;
    case 5:
        for (int i = 0; i < N; ++i)
            T[i] = N > 1 ? b * std::pow(R, (double)i / (N - 1)) : b;
        break;
    case 6:
        for (int i = 0; i < N; ++i)
            T[i] = N > 1 ? b * std::pow(R, (double)(N - 1 - i) / (N - 1)) : b;
        break;
    case 7:
        for (auto &t : T)
            t = clampv(hi * r.uni(0.5, 1.0));
        T[0] = b;
        break;
    case 8:
        for (auto &t : T)
            t = clampv(hi * r.uni(0.5, 1.0));
        T[N - 1] = b;
        break;
    case 9:
        for (auto &t : T)
            t = clampv(b * r.uni(1.0, 2.0));
        T[0] = hi;
        break;
    case 10:
        for (auto &t : T)
            t = clampv(b * r.uni(1.0, 2.0));
        T[N - 1] = hi;
        break;
    case 11:
    {
        double v = r.uni(b, hi);
        for (auto &t : T)
            t = v;
        break;
    }
    case 12:
        for (auto &t : T)
            t = r.coin() ? b : hi;
        break;
    case 13: // nearly equal: neighbours differ by a relative 1e-6 .. 1e-10 (late iterations of an optimiser, rounding of a uniform grid)
    {
        double v = r.uni(b, hi);
        double eps = std::pow(10.0, -(double)r.range(6, 10));
        for (auto &t : T)
            t = v * (1.0 + eps * r.uni(-1, 1));
        break;
    }
    default: // structured: symmetric dyadic deviations around the first duration, so that the mean equals the first entry exactly
    {
        double m = std::ldexp(std::round(std::ldexp(r.uni(b, hi), 4)), -4);
        if (!(m >= b))
            m = b;
        for (auto &t : T)
            t = m;
        for (int i = 1; i + 1 < N; i += 2)
        {
            double span = std::min(m - b, hi - m);
            double d = std::ldexp(std::floor(std::ldexp(r.uni(0, std::max(0.0, span)), 6)), -6);
            T[i] = m - d;
            T[i + 1] = m + d;
        }
        break;
    }
    }
    for (auto &t : T)
        t = clampv(t);
    return T;
}

inline double genStartTime(Rng &r)
{
    static const double cls[] = {0.0, 1e-3, -1e-3, 1.0, -1.0, 1e3, -1e3, 1e6, -1e6};
    int k = r.range(0, 11);
    if (k < 9)
        return cls[k];
    if (k == 9)
        return r.uni(-10, 10);
    if (k == 10)
        return r.uni(-1e6, 1e6);
    return r.normal();
}

struct GenOpts
{
    double ratio_cap = -1; // <0: by order
    double base_lo = 0.1, base_hi = 10.0;
    int dur_pattern = -1; // <0 random
    int data_class = -1;  // <0 random
    bool zero_t0 = false;
    double huge_t0_prob = 0.0; // probability of an astronomically large start time (1e9 .. 1e12): nothing but the knot times may depend on it
    double mag_cap = 1e3;
};

static const char *kDataClassNames[] = {"random", "sparse", "collinear_repeated", "large_offset", "big_magnitude", "zero_bc", "axis_aligned", "constant_axis"};
constexpr int kNumDataClasses = 8;

inline Problem genProblem(Rng &r, int order, int dim, int N, const GenOpts &o = GenOpts(), int *pattern_out = nullptr,
                          int *dclass_out = nullptr)
{
    Problem p;
    p.order = order;
    p.dim = dim;
    p.N = N;
    const double R = o.ratio_cap > 0 ? o.ratio_cap : ratioCap(order);
    const double b = r.logUni(o.base_lo, o.base_hi);
    // the effective ratio is itself random in [1, R] (log-uniform), biased towards the cap
    double Reff = r.coin(0.5) ? R : r.logUni(1.0, R);
    int pat = o.dur_pattern >= 0 ? o.dur_pattern : r.range(0, kNumDurPatterns - 1);
    p.T = genDurations(r, N, b, Reff, pat);
    p.t0 = o.zero_t0 ? 0.0 : genStartTime(r);
    if (!o.zero_t0 && o.huge_t0_prob > 0 && r.coin(o.huge_t0_prob))
        p.t0 = r.pick(std::vector<double>{1e9, -1e9, 1.7e9, 1e12, -3e11, -6e10});
    int dc = o.data_class >= 0 ? o.data_class : r.range(0, kNumDataClasses - 1);
    if (pattern_out)
        *pattern_out = pat;
    if (dclass_out)
        *dclass_out = dc;
    p.P = MatrixXd::Zero(N + 1, dim);
    p.bc.setZero(dim);
    const int s = p.s();
    auto fillBC = [&](double mag)
    {
        for (int d = 1; d <= s - 1; ++d)
            for (int j = 0; j < dim; ++j)
            {
                p.bc.s(d)(j) = mag * r.normal();
                p.bc.e(d)(j) = mag * r.normal();
            }
    };
    switch (dc)
    {
    case 0:
    {
        double sc = r.pick(std::vector<double>{1.0, 1.0, 3.0, 10.0, 0.1});
        for (int i = 0; i <= N; ++i)
            for (int j = 0; j < dim; ++j)
                p.P(i, j) = sc * r.normal();
        fillBC(sc * r.pick(std::vector<double>{1.0, 0.3, 3.0}));
        break;
    }
    case 1: // sparse: a single non-zero entry
    {
        int nb = 2 * (s - 1);
        int which = r.range(0, (N + 1) + nb - 1);
        int j = r.range(0, dim - 1);
        double v = r.coin() ? 1.0 : r.uni(-5, 5);
        if (which <= N)
            p.P(which, j) = v;
        else
        {
            int q = which - (N + 1);
            int d = q / 2 + 1;
            if (q % 2 == 0)
                p.bc.s(d)(j) = v;
            else
                p.bc.e(d)(j) = v;
        }
        break;
    }
    case 2: // collinear / repeated waypoints
    {
        VectorXd dir = VectorXd::Zero(dim), org = VectorXd::Zero(dim);
        for (int j = 0; j < dim; ++j)
        {
            dir(j) = r.normal();
            org(j) = r.normal();
        }
        double pos = 0;
        for (int i = 0; i <= N; ++i)
        {
            if (!(i > 0 && r.coin(0.3)))
                pos += r.uni(-1, 2);
            p.P.row(i) = (org + pos * dir).transpose();
        }
        if (r.coin())
            fillBC(1.0);
        break;
    }
    case 3: // large offsets
    {
        VectorXd off(dim);
        for (int j = 0; j < dim; ++j)
            off(j) = r.uni(-1, 1) * 900.0;
        for (int i = 0; i <= N; ++i)
            for (int j = 0; j < dim; ++j)
                p.P(i, j) = off(j) + r.normal();
        fillBC(1.0);
        break;
    }
    case 4: // big magnitudes near the cap
    {
        for (int i = 0; i <= N; ++i)
            for (int j = 0; j < dim; ++j)
                p.P(i, j) = r.uni(-1, 1) * o.mag_cap;
        for (int d = 1; d <= s - 1; ++d)
            for (int j = 0; j < dim; ++j)
            {
                p.bc.s(d)(j) = r.uni(-1, 1) * o.mag_cap;
                p.bc.e(d)(j) = r.uni(-1, 1) * o.mag_cap;
            }
        break;
    }
    case 6: // axis-aligned moves (grid paths): between consecutive waypoints only one coordinate changes, the others repeat exactly
    {
        VectorXd cur(dim);
        for (int j = 0; j < dim; ++j)
            cur(j) = std::round(4 * r.normal()) / 2;
        for (int i = 0; i <= N; ++i)
        {
            if (i > 0)
                cur(r.range(0, dim - 1)) += (r.coin() ? 1 : -1) * r.uni(0.5, 2.0);
            p.P.row(i) = cur.transpose();
        }
        if (r.coin())
            fillBC(1.0);
        break;
    }
    case 7: // planar / constrained motion: one coordinate is exactly constant over all waypoints, its boundary derivatives are not
    {
        for (int i = 0; i <= N; ++i)
            for (int j = 0; j < dim; ++j)
                p.P(i, j) = 2.0 * r.normal();
        int j = r.range(0, dim - 1);
        double v = r.coin() ? 0.0 : std::round(8 * r.normal()) / 4;
        for (int i = 0; i <= N; ++i)
            p.P(i, j) = v;
        fillBC(1.0);
        break;
    }
    default: // zero boundary derivatives, random waypoints
        for (int i = 0; i <= N; ++i)
            for (int j = 0; j < dim; ++j)
                p.P(i, j) = 2.0 * r.normal();
        break;
    }
    // standing starts / stops: individual boundary vectors exactly zero while the others are not
    if (dc != 1 && dc != 5 && r.coin(0.2))
        for (int d = 1; d <= s - 1; ++d)
        {
            if (r.coin(0.4))
                p.bc.s(d).setZero();
            if (r.coin(0.4))
                p.bc.e(d).setZero();
        }
    // fields the order does not use also get values (they must be ignored by the library)
    if (r.coin(0.3))
    {
        for (int d = s; d <= 3; ++d)
            for (int j = 0; j < dim; ++j)
            {
                p.bc.s(d)(j) = r.normal();
                p.bc.e(d)(j) = r.normal();
            }
    }
    return p;
}

inline double durRatio(const std::vector<double> &T)
{
    double lo = T[0], hi = T[0];
    for (double t : T)
    {
        lo = std::min(lo, t);
        hi = std::max(hi, t);
    }
    return hi / lo;
}

inline std::string dumpBC(const BC &b, bool hex)
{
    return JObj().raw("sv", jvec(b.sv, hex)).raw("sa", jvec(b.sa, hex)).raw("sj", jvec(b.sj, hex)).raw("ev", jvec(b.ev, hex)).raw("ea", jvec(b.ea, hex)).raw("ej", jvec(b.ej, hex)).done();
}
inline std::string dumpProblem(const Problem &p, bool hex = true)
{
    return JObj().i("order", p.order).i("dim", p.dim).i("N", p.N).raw("T", jvec(p.T, hex)).raw("t0", hex ? jhex(p.t0) : jnum(p.t0)).raw("P", jmat(p.P, hex)).raw("bc", dumpBC(p.bc, hex)).num("ratio", durRatio(p.T)).done();
}
inline uint64_t hashProblem(const Problem &p)
{
    uint64_t h = mix64(p.order * 1000 + p.dim, p.N);
    h = hashDoubles(p.T.data(), p.T.size(), h);
    h = hashDoubles(&p.t0, 1, h);
    h = hashDoubles(p.P.data(), p.P.size(), h);
    for (int d = 1; d <= 3; ++d)
    {
        h = hashDoubles(p.bc.s(d).data(), p.bc.s(d).size(), h);
        h = hashDoubles(p.bc.e(d).data(), p.bc.e(d).size(), h);
    }
    return h;
}
inline bool problemNontrivial(const Problem &p)
{
    // at least one non-zero datum
    if (p.P.cwiseAbs().maxCoeff() > 0)
        return true;
    for (int d = 1; d <= p.s() - 1; ++d)
        if (p.bc.s(d).cwiseAbs().maxCoeff() > 0 || p.bc.e(d).cwiseAbs().maxCoeff() > 0)
            return true;
    return false;
}

inline const std::vector<int> &nListQuick()
{
    static const std::vector<int> v{1, 2, 3, 4, 5, 6, 7, 8, 9, 10, 33, 36, 50};
    return v;
}
inline const std::vector<int> &nListThorough()
{
    static const std::vector<int> v{1, 2, 3, 4, 5, 6, 7, 8, 9, 10, 16, 31, 32, 33, 36, 44, 50, 57, 64, 77, 100};
    return v;
}
} // namespace vf
