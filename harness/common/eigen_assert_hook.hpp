// Background monitor plumbing: Eigen's own eigen_assert index/size checks and libstdc++'s _GLIBCXX_ASSERTIONS are
// kept alive in every harness build (no -DNDEBUG).  A failing assertion prints its expression and calls abort();
// the driver's signal handler (driver_main.hpp) then reports which case was running, so the event is attributable.
// This header must be included before any Eigen header so that a build can never silently disable the checks.
#pragma once
#ifdef NDEBUG
#error "harness builds must not define NDEBUG (eigen_assert is a monitor)"
#endif
#ifdef EIGEN_NO_DEBUG
#error "harness builds must not define EIGEN_NO_DEBUG"
#endif
namespace vf
{
extern char g_case_desc[512]; // description of the case currently executing (written by the driver loop)
}
