// Type-erased views of the library's class templates.
//
// The expensive template instantiations (SplineND<DIM>, PPolyND<DIM,ORDER>, SplineOptimizer<...>) are confined to
// the adapter translation units (harness/adapters/*.cpp, compiled once per (order, DIM) cell); every monitor is
// written once, against these interfaces, with dynamic-size Eigen types.  Conversions between MatrixXd and the
// library's row-/column-major fixed-column matrices are exact element copies, so bit patterns are preserved.
#pragma once
#include <Eigen/Dense>
#include <memory>
#include <string>
#include <vector>
#include <functional>
#include <cstdint>

namespace vf
{
using Eigen::MatrixXd;
using Eigen::VectorXd;

struct BC
{
    VectorXd sv, sa, sj, ev, ea, ej;
    void setZero(int dim)
    {
        sv = sa = sj = ev = ea = ej = VectorXd::Zero(dim);
    }
    // derivative k (1..3) at start/end
    VectorXd &s(int k) { return k == 1 ? sv : (k == 2 ? sa : sj); }
    VectorXd &e(int k) { return k == 1 ? ev : (k == 2 ? ea : ej); }
    const VectorXd &s(int k) const { return k == 1 ? sv : (k == 2 ? sa : sj); }
    const VectorXd &e(int k) const { return k == 1 ? ev : (k == 2 ? ea : ej); }
};

struct Problem
{
    int order = 3, dim = 1, N = 1;
    std::vector<double> T; // N durations
    double t0 = 0.0;
    MatrixXd P; // (N+1) x dim
    BC bc;
    int s() const { return (order + 1) / 2; }      // 2,3,4
    int ncoef() const { return order + 1; }        // 4,6,8
    std::vector<double> timePoints() const
    {
        std::vector<double> tp(N + 1);
        tp[0] = t0;
        for (int i = 0; i < N; ++i)
            tp[i + 1] = tp[i] + T[i];
        return tp;
    }
};

// rows: 0=p 1=v 2=a 3=j (rows beyond what the order has stay zero)
struct Grads
{
    MatrixXd inner;  // (N-1) x dim
    VectorXd times;  // N
    MatrixXd start;  // 4 x dim
    MatrixXd end;    // 4 x dim
};

struct SegView
{
    double start = 0, end = 0, duration = 0;
    int index = 0;
    MatrixXd coeffs;
};

// Calling-idiom routes: chosen per case by the monitors' context (Ctx::beginCase) and applied inside the adapters, so
// that every property's workload also varies HOW the same request is made, not only its values.
struct Routes
{
    // how a spline's exposed trajectory is reached: 0 getTrajectory()  1 getPPoly()  2 getTrajectoryCopy()
    // 3 getPPolyCopy() (2,3: always the first accessor used after an update)  4 a reference taken once at construction
    // and held across every later update
    int access = 0;
    // constructor / update arguments: 0 durations lvalue, matrix and boundary temporaries  1 all temporaries  2 all named lvalues
    int args = 0;
    // how a returned result is consumed: 0 converted at once; 1 bound to a reference (`const auto &r = f(a)`), then the
    // same function is called again with other arguments, and only then r is read (two results alive together)
    int hold = 0;
    // one extra read-only query right after every construction / update, before the monitor's own first query:
    // 0 none, 1 getEnergy, 2 getEnergyGrad, 3 getEnergyGradBoundary, 4 getEnergyGradTimes, 5 getEnergyGradInnerPoints,
    // 6 getEnergyPartialGradByCoeffs, 7 getEnergyPartialGradByTimes, 8 propagateGrad, 9 trajectory evaluation
    int prequery = 0;
};
extern Routes g_routes;
// held-reference consumption (Routes::hold): `call` and `other` return exactly what the library returns (decltype(auto))
template <class F1, class F2, class Conv>
auto consumeHeld(F1 &&call, F2 &&other, Conv &&conv)
{
    if (g_routes.hold)
    {
        const auto &r = call();
        const auto &r2 = other();
        (void)r2;
        return conv(r);
    }
    return conv(call());
}

struct IPPoly
{
    virtual ~IPPoly() {}
    virtual int dim() const = 0;
    virtual int fixedOrder() const = 0; // -1 dynamic
    virtual void update(const std::vector<double> &bp, const MatrixXd &c, int nc) = 0;
    // update() fed with the object's own getters: which 0 = (getBreakpoints(), c, nc), 1 = (bp, getCoefficients(), nc), 2 = both own
    virtual void updateAliased(int which, const std::vector<double> &bp, const MatrixXd &c, int nc) = 0;
    virtual bool isInitialized() const = 0;
    virtual int numSegments() const = 0;
    virtual int numCoeffs() const = 0;
    virtual int degree() const = 0;
    virtual double startTime() const = 0;
    virtual double endTime() const = 0;
    virtual double duration() const = 0;
    virtual std::vector<double> breakpoints() const = 0;
    virtual MatrixXd coefficients() const = 0;
    virtual VectorXd eval(double t, int k) const = 0;
    virtual VectorXd evalEnum(double t, int k) const = 0; // Deriv enum overload (k in 0..6); k<0 -> default argument
    virtual VectorXd evalHint(double t, int *hint, int k) const = 0;
    virtual VectorXd evalHintEnum(double t, int *hint, int k) const = 0;
    virtual MatrixXd evalBatch(const std::vector<double> &t, int k) const = 0;     // rows = samples
    virtual MatrixXd evalBatchEnum(const std::vector<double> &t, int k) const = 0; // k<0 -> default argument
    virtual SegView segIndex(int i) const = 0;                                     // operator[]
    virtual bool segAt(int i, SegView *out) const = 0;                             // at(); false if it threw out_of_range
    virtual VectorXd segEval(int i, double tl, int k) const = 0;                   // operator[](i).evaluate
    virtual VectorXd segEvalEnum(int i, double tl, int k) const = 0;
    virtual VectorXd segAtEval(int i, double tl, int k) const = 0; // at(i).evaluate (i must be valid)
    // iterate begin()..end(): for each segment returns view + evaluation at local time frac*duration
    virtual std::vector<SegView> iterate(bool reverse) const = 0;
    virtual VectorXd iterEval(int i, double tl, int k, int mode) const = 0; // via (begin()+i) / ++ / -> / *
    virtual std::unique_ptr<IPPoly> derivative(int k) const = 0;            // k<0 -> default argument
    virtual std::unique_ptr<IPPoly> clone() const = 0;
    virtual void assignFrom(const IPPoly &o) = 0; // same concrete type
    virtual void selfAssign() = 0;
    virtual std::vector<double> genTimeSeq(double a, double b, double dt) const = 0;
    virtual std::vector<double> genTimeSeqAll(double dt) const = 0;
    virtual double length(double a, double b, double dt) const = 0;
    virtual double lengthAll(double dt) const = 0;
    virtual double lengthDefault() const = 0;
    virtual std::unique_ptr<IPPoly> makeEmpty() const = 0;
    virtual std::unique_ptr<IPPoly> makeCtor(const std::vector<double> &bp, const MatrixXd &c, int nc) const = 0;
    virtual std::unique_ptr<IPPoly> makeZero(const std::vector<double> &bp, int nc) const = 0; // nc<0: default arg
    virtual std::unique_ptr<IPPoly> makeConstant(const std::vector<double> &bp, const VectorXd &v) const = 0;
};

struct ISpline
{
    virtual ~ISpline() {}
    virtual int order() const = 0;
    virtual int dim() const = 0;
    virtual void updateDur(const std::vector<double> &T, const MatrixXd &P, double t0, const BC &bc) = 0;
    virtual void updatePts(const std::vector<double> &tp, const MatrixXd &P, const BC &bc) = 0;
    virtual void updateDurDefaultBC(const std::vector<double> &T, const MatrixXd &P, double t0) = 0;
    virtual void updatePtsDefaultBC(const std::vector<double> &tp, const MatrixXd &P) = 0;
    // update(own getters...): which 0 = (getTimeSegments(), getSpacePoints(), t0, getBoundaryConditions()), 1 = (getCumulativeTimes(), getSpacePoints(), getBoundaryConditions())
    virtual void updateFromOwnGetters(int which, double t0) = 0;
    // const TrajectoryType &c = get{Trajectory,PPoly}Copy(); update(...); read c
    virtual void copyRefThenUpdate(bool ppolyName, const std::vector<double> &T, const MatrixXd &P, double t0, const BC &bc, MatrixXd &coeffsOut, std::vector<double> &bpOut) = 0;
    virtual double trajLengthDefault() const = 0; // exposed trajectory's getTrajectoryLength() with every argument defaulted
    virtual bool isInitialized() const = 0;
    virtual MatrixXd coeffs() const = 0;
    virtual std::vector<double> breakpoints() const = 0;
    virtual std::vector<double> cumTimes() const = 0;
    virtual std::vector<double> timeSegments() const = 0;
    virtual double startTime() const = 0;
    virtual double endTime() const = 0;
    virtual double duration() const = 0;
    virtual int numSegments() const = 0;
    virtual size_t numPoints() const = 0;
    virtual MatrixXd spacePoints() const = 0;
    virtual BC boundary() const = 0;
    virtual double energy() const = 0;
    virtual Grads energyGrad(bool refOverload) const = 0;
    virtual VectorXd energyGradTimes() const = 0;
    virtual MatrixXd energyGradInner() const = 0;
    virtual void energyGradBoundary(MatrixXd &start, MatrixXd &end) const = 0;
    virtual MatrixXd partialC(bool refOverload) const = 0;
    virtual VectorXd partialT(bool refOverload) const = 0;
    virtual Grads propagate(const MatrixXd &gC, const VectorXd &gT, bool refOverload) = 0;
    // refOverload variant writing into a Gradients object that already holds (stale) data of another size
    virtual Grads propagateIntoStale(const MatrixXd &gC, const VectorXd &gT, int staleRows) = 0; // staleRows < 0: same shape as the result
    // reference overload with the upstream duration gradient living in the receiving object: g.times = gT; propagateGrad(gC, g.times, g)
    virtual Grads propagateAliasedTimes(const MatrixXd &gC, const VectorXd &gT) = 0;
    virtual VectorXd trajEvalHint(double t, int *hint, int k) const = 0; // getTrajectory().evaluate(t, &hint, k)
    // reference overloads writing into caller-owned objects that already hold other (stale, non-zero) content
    virtual MatrixXd partialCStale(bool sameShape) const = 0;
    virtual VectorXd partialTStale(bool sameShape) const = 0;
    virtual Grads energyGradStale(bool sameShape) const = 0;
    virtual VectorXd trajEval(double t, int k) const = 0;       // getTrajectory().evaluate
    virtual VectorXd ppolyEval(double t, int k) const = 0;      // getPPoly().evaluate
    virtual VectorXd segEval(int i, double tl, int k) const = 0; // getTrajectory()[i].evaluate
    virtual int trajNumSegments() const = 0;
    virtual int trajNumCoeffs() const = 0;
    virtual bool trajInitialized() const = 0;
    virtual std::unique_ptr<IPPoly> trajectoryCopy(bool ppolyName) const = 0;
    virtual std::unique_ptr<ISpline> clone() const = 0;
    virtual void assignFrom(const ISpline &o) = 0;
    virtual void selfAssign() = 0;
    // basis functions used by the optimizer's sampler: rows pos,vel,acc,jerk,snap,crackle x ncoef
    virtual MatrixXd basis(double t) const = 0;
};

// BoundaryConditions<DIM> constructor routing probe: returns 6 x dim matrix (sv,sa,sj,ev,ea,ej) after constructing with
// nargs in {0,2,4,6} arguments taken from args rows in declaration order.
MatrixXd bcCtorProbe(int dim, int nargs, const MatrixXd &args);

std::unique_ptr<ISpline> makeSpline(int order, int dim);                                  // default-constructed
std::unique_ptr<ISpline> makeSplineDur(const Problem &p);                                 // (durations, P, t0, bc) ctor
std::unique_ptr<ISpline> makeSplinePts(const Problem &p);                                 // (time points, P, bc) ctor
std::unique_ptr<ISpline> makeSplineDurDefaultBC(const Problem &p);                        // bc defaulted
std::unique_ptr<ISpline> makeSplinePtsDefaultBC(const Problem &p);
bool haveSplineCell(int order, int dim);
std::vector<std::pair<int, int>> splineCells();

std::unique_ptr<IPPoly> makePPoly(int dim, int fixedOrder); // fixedOrder -1 = dynamic
bool havePPolyCell(int dim, int fixedOrder);
std::vector<std::pair<int, int>> ppolyCells();

// What a spline computed for a fixed small problem while the program's static objects were still being initialised (a
// namespace-scope constant such as `static const double kRefEnergy = refSpline.getEnergy();` in user code).
struct StaticInitRecord
{
    Problem p;
    MatrixXd gC;
    VectorXd gT;
    MatrixXd C;
    double E = 0;
    Grads eg, pg;
    MatrixXd evals; // rows: derivative 0..2 at the start, at an interior time and at the end
};
Problem staticInitProblem(int order, int dim);
const StaticInitRecord &splineStaticInit(int order, int dim);

// ---- registration (used by adapter TUs) ----
struct SplineFactory
{
    int order, dim;
    const StaticInitRecord *staticInit = nullptr;
    std::function<std::unique_ptr<ISpline>()> makeDefault;
    std::function<std::unique_ptr<ISpline>(const Problem &, int mode)> makeCtor; // mode 0 dur,1 pts,2 dur-defaultbc,3 pts-defaultbc
};
void registerSpline(const SplineFactory &f);
struct PPolyFactory
{
    int dim, fixedOrder;
    std::function<std::unique_ptr<IPPoly>()> make;
};
void registerPPoly(const PPolyFactory &f);
struct BcProbe
{
    int dim;
    std::function<MatrixXd(int, const MatrixXd &)> fn;
};
void registerBcProbe(const BcProbe &p);

} // namespace vf
