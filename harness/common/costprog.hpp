// Generated user cost functors (DESIGN.md section 5 "Programs") and the client-boundary event log (3.6).
// A CostProgram is a runtime-configured sum of smooth terms, each carrying its exact gradient, following the
// documented functor protocol: time cost f(T), waypoint cost g(q), running cost c(p,v,a,j,s, t_global, segment) with
// explicit time dependence expressed through global time only.  Outputs of derivative classes the program does not
// use are left untouched (the way a user functor that only cares about, say, position would be written).
#pragma once
#include <Eigen/Dense>
#include <array>
#include <atomic>
#include <mutex>
#include <string>
#include <vector>
#include "rng.hpp"

namespace vf
{
constexpr int kMaxDim = 6;

struct RunSample
{
    uint64_t ticket;
    int thread;
    int seg;
    double t, tg;
    double x[5][kMaxDim]; // p v a j s
};
struct Recorder
{
    std::vector<std::vector<RunSample>> perThread;
    std::atomic<uint64_t> ticket{0};
    std::atomic<int> nextSlot{0};
    std::mutex mu; // guards the cold paths only (time / waypoint cost logs)
    std::vector<std::vector<double>> timeArgs;
    std::vector<Eigen::MatrixXd> wpArgs;
    uint64_t id;
    Recorder();
    void clear()
    {
        for (auto &v : perThread)
            v.clear();
        ticket = 0;
        timeArgs.clear();
        wpArgs.clear();
    }
    std::vector<RunSample> merged() const;
    int slot();
};

enum Perturb
{
    PERT_NONE = 0,
    PERT_TIME_GRAD,
    PERT_WP_GRAD,
    PERT_GP,
    PERT_GV,
    PERT_GA,
    PERT_GJ,
    PERT_GS,
    PERT_GT,
    PERT_TIME_OMIT,   // the time cost returns its value but never fills its gradient (left all zero)
    PERT_WP_OMIT_ROW  // the waypoint cost forgets the gradient row pert_index (left zero)
};

struct CostProgram
{
    int dim = 1;
    // ---- time cost: sum_i w_i T_i + quad (sum T)^2 + pair sum T_i T_{i+1} + sa sin(sw sum_i (i+1) T_i)
    bool has_time = true;
    std::array<double, 8> tw{};
    double t_quad = 0, t_pair = 0, t_sa = 0, t_sw = 0;
    // ---- waypoint cost: sum_rows rw(row) |q_row - target|^2 + cross sum q_i . q_{i+1} + wa sin(wk . q_row)
    bool has_wp = true;
    double w_quad = 0, w_cross = 0, w_sa = 0;
    std::array<double, kMaxDim> w_target{}, w_k{};
    // ---- running cost
    double q_w[5] = {0, 0, 0, 0, 0};         // weights of |x - c_x|^2, x in p v a j s
    double q_c[5][kMaxDim] = {};             // offsets
    double x_pv = 0, x_va = 0, x_aj = 0, x_js = 0, x_ps = 0; // cross terms between derivative orders
    double s_a = 0, s_phi = 0;               // s_a sin(s_k . p + s_phi)
    double s_k[kMaxDim] = {};
    double c_b = 0;                          // c_b cos(c_k . v)
    double c_k[kMaxDim] = {};
    double m_c = 0, m_om = 0, m_psi = 0;     // m_c (1 + 0.3 sin(m_om tg + m_psi)) |v|^2
    double l_d = 0;                          // l_d tg (l_k . p)
    double l_k[kMaxDim] = {};
    double o_e = 0, o_sig2 = 1;              // o_e exp(-|p - (o0 + o1 tg)|^2 / o_sig2)
    double o0[kMaxDim] = {}, o1[kMaxDim] = {};
    double wn_w = 0, wn_0 = 0, wn_1 = 1;     // wn_w ((tg-wn_0)(wn_1-tg))^3 |p - wn_c|^2 inside the window (wn_0, wn_1), exactly zero outside
    double wn_c[kMaxDim] = {};
    double dl_w = 0, dl_t = 0;               // dl_w max(0, tg - dl_t)^3 (1 + 0.1 |v|^2): a time-window penalty, exactly zero before the deadline
    double bar_r2 = 0;                       // hard keep-out barrier: the running cost is +inf when |p - bar_c|^2 < bar_r2 (C12 only)
    double bar_c[kMaxDim] = {};
    double seg_w = 0;                        // whole running cost multiplied by (1 + seg_w (i mod 5))
    double out_scale = 1.0;                  // ... and by out_scale (1e-308 and below: every term the integrator sees is subnormal; C12 only)
    bool usesClass[5] = {false, false, false, false, false}; // which of gp gv ga gj gs are ever written
    bool usesTime = false;
    bool conditionalWrites = false; // outputs are written only at samples where they are non-zero
    // ---- deliberate single-component corruption of a returned gradient (C19)
    int pert = PERT_NONE;
    int pert_index = 0;    // duration index / waypoint row / (unused)
    int pert_coord = 0;    // coordinate
    double pert_delta = 0; // added to the reported gradient component
    // ---- a running cost that throws std::out_of_range in segment throw_at_seg (after its first sample); -1 = never
    int throw_at_seg = -1;
    // ---- ... or at its throw_at_call-th invocation counted from the moment the program object was set up (-1 = never;
    // single-threaded use only): an exception in the middle of a multi-evaluation helper such as checkGradients
    long throw_at_call = -1;
    mutable long call_count = 0;
    // ---- recording
    mutable Recorder *rec = nullptr;

    static CostProgram generate(Rng &r, int dim, int richness = -1);
    static CostProgram zero(int dim);
    std::string describe() const;

    double timeCost(const std::vector<double> &T, Eigen::VectorXd &grad) const;
    double wpCost(const Eigen::MatrixXd &q, Eigen::MatrixXd &grad) const;
    // returns cost; writes only the outputs of the classes the program uses
    double runCost(double t, double tg, int seg, const double *p, const double *v, const double *a, const double *j, const double *s,
                   double *gp, double *gv, double *ga, double *gj, double *gs, double &gt) const;
    // pure value in long double (for the program's own self-check and for C08's independent recomputation)
    long double runValueLD(long double tg, int seg, const long double *p, const long double *v, const long double *a, const long double *j, const long double *s) const;
    long double timeValueLD(const std::vector<double> &T) const;
    long double wpValueLD(const Eigen::MatrixXd &q) const;
};
} // namespace vf
