// Verdict plumbing shared by all drivers: per-monitor worst residuals, event counters, violation records (JSONL),
// case hashing for the distinct/non-trivial count, attributable crash reports.
#pragma once
#include "eigen_assert_hook.hpp"
#include "rng.hpp"
#include <Eigen/Dense>
#include <cstdio>
#include <cstdlib>
#include <cstring>
#include <csignal>
#include <unistd.h>
#include <functional>
#include <map>
#include <set>
#include <sstream>
#include <string>
#include <vector>
#include <algorithm>
#include <cmath>

namespace vf
{
// ---------- tiny JSON writer ----------
inline std::string jstr(const std::string &s)
{
    std::string r = "\"";
    for (char c : s)
    {
        if (c == '"' || c == '\\')
        {
            r += '\\';
            r += c;
        }
        else if (c == '\n')
            r += "\\n";
        else if ((unsigned char)c < 0x20)
            r += ' ';
        else
            r += c;
    }
    return r + "\"";
}
inline std::string jnum(double v)
{
    if (std::isnan(v))
        return "\"nan\"";
    if (std::isinf(v))
        return v > 0 ? "\"inf\"" : "\"-inf\"";
    char b[40];
    snprintf(b, sizeof b, "%.17g", v);
    return b;
}
inline std::string jnum(long double v) { return jnum((double)v); }
inline std::string jint(long long v) { return std::to_string(v); }
inline std::string jhex(double v)
{
    char b[48];
    snprintf(b, sizeof b, "\"%a\"", v);
    return b;
}
inline std::string jvec(const std::vector<double> &v, bool hex = false)
{
    std::string r = "[";
    for (size_t i = 0; i < v.size(); ++i)
    {
        if (i)
            r += ",";
        r += hex ? jhex(v[i]) : jnum(v[i]);
    }
    return r + "]";
}
inline std::string jvec(const Eigen::VectorXd &v, bool hex = false)
{
    return jvec(std::vector<double>(v.data(), v.data() + v.size()), hex);
}
inline std::string jveci(const std::vector<int> &v)
{
    std::string r = "[";
    for (size_t i = 0; i < v.size(); ++i)
    {
        if (i)
            r += ",";
        r += std::to_string(v[i]);
    }
    return r + "]";
}
inline std::string jmat(const Eigen::MatrixXd &m, bool hex = false)
{
    std::string r = "[";
    for (int i = 0; i < m.rows(); ++i)
    {
        if (i)
            r += ",";
        r += "[";
        for (int j = 0; j < m.cols(); ++j)
        {
            if (j)
                r += ",";
            r += hex ? jhex(m(i, j)) : jnum(m(i, j));
        }
        r += "]";
    }
    return r + "]";
}
struct JObj
{
    std::string s = "{";
    bool first = true;
    JObj &raw(const std::string &k, const std::string &v)
    {
        if (!first)
            s += ",";
        first = false;
        s += jstr(k) + ":" + v;
        return *this;
    }
    JObj &str(const std::string &k, const std::string &v) { return raw(k, jstr(v)); }
    JObj &num(const std::string &k, double v) { return raw(k, jnum(v)); }
    JObj &i(const std::string &k, long long v) { return raw(k, jint(v)); }
    JObj &b(const std::string &k, bool v) { return raw(k, v ? "true" : "false"); }
    std::string done() const { return s + "}"; }
};

struct Stat
{
    double worst = 0.0;
    double tol = 0.0;
    uint64_t n = 0;
    std::string worst_cell;
    uint64_t worst_case = 0;
};

struct Args
{
    std::string prop, tier = "quick", out, variant = "plain";
    std::string mode; // "" = the property's monitor; "threads" = distinct objects used by concurrent threads (drivers that support it)
    uint64_t seed = 1;
    int shard = 0, nshards = 1;
    double scale = 1.0; // multiplies case counts
    std::string only_cell;
    long long only_case = -1;
    int max_dim = 10;
    std::vector<int> dims;   // restrict dims (empty = all registered)
    std::vector<int> orders; // restrict orders
};

struct Ctx;
// called at the start of every case with the case's seed (drivers install it to pick the adapters' calling-idiom routes)
inline void (*g_beginCaseHook)(Ctx &, uint64_t) = nullptr;

struct Ctx
{
    Args a;
    FILE *out = stdout;
    std::map<std::string, Stat> stats;
    std::map<std::string, uint64_t> counters;
    std::map<std::string, uint64_t> cells;
    std::set<uint64_t> hashes;
    std::set<std::string> distinct_sets[4]; // optional named distinct sets (e.g. interleavings)
    uint64_t evaluations = 0;
    uint64_t violations = 0;
    uint64_t viol_records = 0;
    std::vector<std::string> samples;
    // current case
    std::string cell;
    uint64_t case_idx = 0;
    std::function<std::string()> dump; // lazily serialises the inputs of the current case
    bool case_failed = false;
    uint64_t prop_hash = 0;

    bool mine(uint64_t idx) const
    {
        if (a.only_case >= 0)
            return (long long)idx == a.only_case;
        return (int)(idx % (uint64_t)a.nshards) == a.shard;
    }
    bool cellSelected(const std::string &c) const { return a.only_cell.empty() || a.only_cell == c; }
    // number of cases for a loop whose nominal count is n
    uint64_t count(double n) const
    {
        double v = n * a.scale;
        return v < 1 ? 1 : (uint64_t)v;
    }
    Rng beginCase(const std::string &cell_, uint64_t idx)
    {
        cell = cell_;
        case_idx = idx;
        case_failed = false;
        dump = nullptr;
        evaluations++;
        cells[cell_]++;
        snprintf(g_case_desc, sizeof g_case_desc, "prop=%s cell=%s case=%llu seed=%llu", a.prop.c_str(), cell_.c_str(),
                 (unsigned long long)idx, (unsigned long long)a.seed);
        const uint64_t caseSeed = mix64(mix64(a.seed, prop_hash), mix64(hashStr(cell_.c_str()), idx));
        if (g_beginCaseHook)
            g_beginCaseHook(*this, caseSeed);
        return Rng(caseSeed);
    }
    void nontrivial(uint64_t h) { hashes.insert(h); }
    void event(const std::string &name, uint64_t n = 1) { counters[name] += n; }
    void sample(const std::string &json)
    {
        if (samples.size() < 4)
            samples.push_back(json);
    }
    void wantSample()
    {
        if (samples.size() < 4 && dump)
            samples.push_back(JObj().str("cell", cell).i("case", case_idx).raw("inputs", dump()).done());
    }

    // value must be <= tol (NaN fails).  Returns true when OK.
    bool check(const std::string &monitor, double value, double tol, const std::string &key_json = "{}",
               const std::string &detail = "")
    {
        Stat &st = stats[monitor];
        st.tol = tol;
        st.n++;
        bool ok = (value <= tol); // false for NaN
        double v = std::isnan(value) ? INFINITY : value;
        if (v > st.worst)
        {
            st.worst = v;
            st.worst_cell = cell;
            st.worst_case = case_idx;
        }
        if (!ok)
            violation(monitor, value, tol, key_json, detail);
        return ok;
    }
    // boolean monitor
    bool require(const std::string &monitor, bool cond, const std::string &key_json = "{}", const std::string &detail = "")
    {
        Stat &st = stats[monitor];
        st.tol = 0;
        st.n++;
        if (!cond)
        {
            if (st.worst < 1)
            {
                st.worst = 1;
                st.worst_cell = cell;
                st.worst_case = case_idx;
            }
            violation(monitor, 1, 0, key_json, detail);
        }
        return cond;
    }
    void violation(const std::string &monitor, double value, double tol, const std::string &key_json, const std::string &detail)
    {
        violations++;
        case_failed = true;
        const bool full = viol_records < 40;
        viol_records++;
        JObj o;
        o.str("type", "violation").str("prop", a.prop).str("monitor", monitor).str("cell", cell).i("case", case_idx);
        o.i("seed", a.seed).str("tier", a.tier).str("variant", a.variant).num("value", value).num("tol", tol);
        o.raw("key", key_json);
        if (full)
            o.str("detail", detail);
        if (full && dump)
            o.raw("inputs", dump());
        fprintf(out, "%s\n", o.done().c_str());
        fflush(out);
    }
    void finish()
    {
        JObj o;
        o.str("type", "summary").str("prop", a.prop).i("shard", a.shard).i("evaluations", evaluations);
        o.i("violations", violations);
        std::string st = "{";
        bool f = true;
        for (auto &kv : stats)
        {
            if (!f)
                st += ",";
            f = false;
            st += jstr(kv.first) + ":" +
                  JObj().num("worst", kv.second.worst).num("tol", kv.second.tol).i("n", kv.second.n).str("worst_cell", kv.second.worst_cell).i("worst_case", kv.second.worst_case).done();
        }
        o.raw("stats", st + "}");
        std::string cs = "{";
        f = true;
        for (auto &kv : counters)
        {
            if (!f)
                cs += ",";
            f = false;
            cs += jstr(kv.first) + ":" + jint(kv.second);
        }
        o.raw("counters", cs + "}");
        cs = "{";
        f = true;
        for (auto &kv : cells)
        {
            if (!f)
                cs += ",";
            f = false;
            cs += jstr(kv.first) + ":" + jint(kv.second);
        }
        o.raw("cells", cs + "}");
        // distinct non-trivial cases: all hashes when there are few; otherwise the sub-sample "hash mod M == 0" (M a power of
        // two), which is consistent across shards, so that the union can still be counted (and scaled by M) by the caller
        uint64_t mod = 1;
        while (hashes.size() / mod > 200000)
            mod *= 2;
        std::string hs = "[";
        f = true;
        for (uint64_t h : hashes)
        {
            if (mod > 1 && (h & (mod - 1)) != 0)
                continue;
            if (!f)
                hs += ",";
            f = false;
            char b[24];
            snprintf(b, sizeof b, "\"%016llx\"", (unsigned long long)h);
            hs += b;
        }
        o.raw("hashes", hs + "]");
        o.i("hash_sample_mod", (long long)mod);
        o.i("hashes_exact_in_shard", (long long)hashes.size());
        for (int k = 0; k < 4; ++k)
        {
            if (distinct_sets[k].empty())
                continue;
            std::string ds = "[";
            f = true;
            for (auto &s : distinct_sets[k])
            {
                if (!f)
                    ds += ",";
                f = false;
                ds += jstr(s);
            }
            o.raw("distinct" + std::to_string(k), ds + "]");
        }
        std::string ss = "[";
        f = true;
        for (auto &s : samples)
        {
            if (!f)
                ss += ",";
            f = false;
            ss += s;
        }
        o.raw("samples", ss + "]");
        fprintf(out, "%s\n", o.done().c_str());
        fflush(out);
    }
};

// ---------- helpers ----------
inline bool bitEqual(double a, double b) { return std::memcmp(&a, &b, sizeof(double)) == 0; }
inline bool bitEqualOrBothNaN(double a, double b) { return bitEqual(a, b) || (std::isnan(a) && std::isnan(b)); }
template <class A, class B>
inline bool bitEqualMat(const A &a, const B &b)
{
    if (a.rows() != b.rows() || a.cols() != b.cols())
        return false;
    for (int i = 0; i < a.rows(); ++i)
        for (int j = 0; j < a.cols(); ++j)
            if (!bitEqual(a(i, j), b(i, j)))
                return false;
    return true;
}
inline bool bitEqualVec(const std::vector<double> &a, const std::vector<double> &b)
{
    if (a.size() != b.size())
        return false;
    for (size_t i = 0; i < a.size(); ++i)
        if (!bitEqual(a[i], b[i]))
            return false;
    return true;
}
template <class A>
inline bool allFinite(const A &a)
{
    for (int i = 0; i < a.rows(); ++i)
        for (int j = 0; j < a.cols(); ++j)
            if (!std::isfinite(a(i, j)))
                return false;
    return true;
}
// distance in doubles between vertically adjacent elements (1 for column-major storage, cols() for row-major)
template <class M>
inline int colStride(const M &m)
{
    return m.rows() > 1 ? (int)(&m(1, 0) - &m(0, 0)) : 1;
}
inline double ulpOf(double x)
{
    x = std::fabs(x);
    if (x == 0)
        return 4.9406564584124654e-324;
    return std::nextafter(x, INFINITY) - x;
}

// ---------- crash attribution ----------
inline void crashHandler(int sig)
{
    char buf[700];
    int n = snprintf(buf, sizeof buf, "\nVF_CRASH signal=%d %s\n", sig, g_case_desc);
    if (n > 0)
    {
        ssize_t w = write(2, buf, (size_t)n);
        (void)w;
    }
    _exit(70);
}
inline void installCrashHandlers()
{
#if !defined(__SANITIZE_ADDRESS__) && !defined(__SANITIZE_THREAD__)
    signal(SIGSEGV, crashHandler);
    signal(SIGBUS, crashHandler);
#endif
    signal(SIGABRT, crashHandler);
    signal(SIGFPE, crashHandler);
    signal(SIGILL, crashHandler);
}

inline bool parseArgs(int argc, char **argv, Args &a)
{
    for (int i = 1; i < argc; ++i)
    {
        std::string k = argv[i];
        auto next = [&]() -> std::string { return (i + 1 < argc) ? argv[++i] : ""; };
        if (k == "--prop")
            a.prop = next();
        else if (k == "--tier")
            a.tier = next();
        else if (k == "--out")
            a.out = next();
        else if (k == "--variant")
            a.variant = next();
        else if (k == "--mode")
            a.mode = next();
        else if (k == "--seed")
            a.seed = strtoull(next().c_str(), 0, 10);
        else if (k == "--shard")
        {
            std::string s = next();
            sscanf(s.c_str(), "%d/%d", &a.shard, &a.nshards);
        }
        else if (k == "--scale")
            a.scale = atof(next().c_str());
        else if (k == "--only-cell")
            a.only_cell = next();
        else if (k == "--only-case")
            a.only_case = atoll(next().c_str());
        else if (k == "--dims" || k == "--orders")
        {
            std::string s = next();
            std::vector<int> &v = (k == "--dims") ? a.dims : a.orders;
            std::stringstream ss(s);
            std::string tok;
            while (std::getline(ss, tok, ','))
                if (!tok.empty())
                    v.push_back(atoi(tok.c_str()));
        }
        else
        {
            fprintf(stderr, "unknown arg %s\n", k.c_str());
            return false;
        }
    }
    return !a.prop.empty();
}
} // namespace vf

#if defined(__SANITIZE_ADDRESS__) && defined(VF_MAIN_TU)
extern "C" void __asan_on_error()
{
    char buf[700];
    int n = snprintf(buf, sizeof buf, "\nVF_ASAN_REPORT %s\n", vf::g_case_desc);
    if (n > 0)
    {
        ssize_t w = write(2, buf, (size_t)n);
        (void)w;
    }
}
#endif
