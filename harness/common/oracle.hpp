// Library-independent oracles (DESIGN.md section 3): extended-precision dense reference spline, polynomial
// evaluation with rounding scale, exact energy integral, scaled residuals of the defining equations.
#pragma once
#include "iface.hpp"
#include <vector>

namespace vf
{
typedef long double LD;
typedef Eigen::Matrix<LD, Eigen::Dynamic, Eigen::Dynamic> MatrixXld;

inline LD ffact(int k, int d) // k (k-1) ... (k-d+1); 0 when d > k
{
    if (d > k)
        return 0;
    LD r = 1;
    for (int j = 0; j < d; ++j)
        r *= (LD)(k - j);
    return r;
}

// Coefficients (ascending powers of physical local time, 2s rows per segment, like the library's layout) of the unique
// minimiser, from a dense 2sN x 2sN solve of the optimality conditions with full pivoting.  quad=true: __float128.
MatrixXld denseReference(const Problem &p, bool quad = false);

struct PolyVal
{
    LD value = 0;  // k-th derivative at t
    LD abssum = 0; // sum of |terms| (rounding scale of the evaluation)
};
// coefficient column accessor: c(row) for one coordinate
PolyVal polyDeriv(const LD *c, int nc, LD t, int k);
PolyVal polyDerivD(const double *c, int stride, int nc, LD t, int k);

// exact integral over [0,h] of (d^s/dt^s p)^2 for one coordinate; abssum = sum of |closed-form terms|
PolyVal energyExact(const double *c, int stride, int nc, int s, LD h);

// local scale sigma_j (position units) per segment and coordinate: max(|dP_j|, max_{k>=1}|c_{j,k}| h^k)
struct Scales
{
    MatrixXld sigma; // N x dim
    std::vector<LD> sglobal; // dim
};
Scales localScales(const Problem &p, const MatrixXd &C);

struct Residuals
{
    // worst scaled residuals (DESIGN 3.3) over all coordinates
    double interp = 0;       // p_i(0)=P_i and p_i(T_i)=P_{i+1}
    double boundary = 0;     // derivatives 1..s-1 at both ends
    double cont[8] = {0};    // continuity of derivative d at interior knots, d = 1..2s-2 (index d), local-scale measure
    double contRel[8] = {0}; // relative jump |L-R| / (sum|terms of L| + |R|): the jump relative to the derivative's own size
    int interp_at = -1, boundary_at = -1, cont_at[8] = {-1, -1, -1, -1, -1, -1, -1, -1};
    int contRel_at[8] = {-1, -1, -1, -1, -1, -1, -1, -1};
    double contRelMax(int dlo, int dhi) const
    {
        double m = 0;
        for (int d = dlo; d <= dhi; ++d)
            m = std::max(m, contRel[d]);
        return m;
    }
    double contMax(int dlo, int dhi) const
    {
        double m = 0;
        for (int d = dlo; d <= dhi; ++d)
            m = std::max(m, cont[d]);
        return m;
    }
};
// C: published coefficients (ncoef*N x dim).  global_floor: delta_g of DESIGN 3.3.
Residuals definingResiduals(const Problem &p, const MatrixXd &C, double global_floor = 1e-3);
Residuals definingResidualsLD(const Problem &p, const MatrixXld &C, double global_floor = 1e-3);

// max over segments/coefficients of |C - Cref| h^k / (sigma_ref_j + floor*Sg)
double coeffError(const Problem &p, const MatrixXd &C, const MatrixXld &Cref, double global_floor = 1e-3, int *at = nullptr);

} // namespace vf
