// Definitional finite-difference oracle (DESIGN.md 3.4) over the inputs of the spline construction map.
#pragma once
#include "iface.hpp"
#include "gen.hpp"
#include <functional>

namespace vf
{
// input groups: 0 durations, 1 inner points, 2 start p, 3 start v, 4 start a, 5 start j, 6 end p, 7 end v, 8 end a, 9 end j
static const char *kGroupNames[] = {"times", "inner_points", "start_p", "start_v", "start_a", "start_j",
                                    "end_p", "end_v", "end_a", "end_j"};
constexpr int kNumGroups = 10;
struct InIdx
{
    int group, i, j;
};
inline bool groupExists(int order, int g)
{
    const int s = (order + 1) / 2;
    if (g <= 2 || g == 6)
        return true;
    int d = (g < 6) ? g - 2 : g - 6; // derivative order 1..3
    return d <= s - 1;
}
inline std::vector<InIdx> enumerateInputs(const Problem &p)
{
    std::vector<InIdx> v;
    for (int i = 0; i < p.N; ++i)
        v.push_back({0, i, 0});
    for (int i = 1; i < p.N; ++i)
        for (int j = 0; j < p.dim; ++j)
            v.push_back({1, i, j});
    for (int g = 2; g < kNumGroups; ++g)
        if (groupExists(p.order, g))
            for (int j = 0; j < p.dim; ++j)
                v.push_back({g, 0, j});
    return v;
}
inline double &inputRef(Problem &p, const InIdx &x)
{
    switch (x.group)
    {
    case 0:
        return p.T[x.i];
    case 1:
        return p.P(x.i, x.j);
    case 2:
        return p.P(0, x.j);
    case 6:
        return p.P(p.N, x.j);
    default:
        if (x.group < 6)
            return p.bc.s(x.group - 2)(x.j);
        return p.bc.e(x.group - 6)(x.j);
    }
}
inline double gradAt(const Grads &g, const InIdx &x)
{
    switch (x.group)
    {
    case 0:
        return g.times(x.i);
    case 1:
        return g.inner(x.i - 1, x.j);
    default:
        if (x.group < 6)
            return g.start(x.group - 2, x.j);
        return g.end(x.group - 6, x.j);
    }
}
// natural step scale of an input component
inline double inputScale(const Problem &p, const InIdx &x)
{
    if (x.group == 0)
        return p.T[x.i];
    double m = 1.0;
    if (x.group == 1 || x.group == 2 || x.group == 6)
    {
        // position: scale of the waypoint differences in this coordinate
        double lo = p.P(0, x.j), hi = lo;
        for (int i = 0; i <= p.N; ++i)
        {
            lo = std::min(lo, p.P(i, x.j));
            hi = std::max(hi, p.P(i, x.j));
        }
        m = std::max(1e-3, std::max(hi - lo, 1.0));
        return m;
    }
    int d = (x.group < 6) ? x.group - 2 : x.group - 6;
    double h = (x.group < 6) ? p.T[0] : p.T[p.N - 1];
    double v = std::fabs((x.group < 6) ? p.bc.s(d)(x.j) : p.bc.e(d)(x.j));
    return std::max(v, 1.0 / std::pow(h, d));
}
// 4th-order central difference of f along direction dir (list of (idx, weight)) with step t
inline double fd4(const Problem &p, const std::vector<std::pair<InIdx, double>> &dir, double t,
                  const std::function<double(const Problem &)> &f, double *fabsmax = nullptr)
{
    double vals[4];
    const double ks[4] = {2, 1, -1, -2};
    for (int q = 0; q < 4; ++q)
    {
        Problem pp = p;
        for (auto &d : dir)
            inputRef(pp, d.first) += ks[q] * t * d.second;
        vals[q] = f(pp);
    }
    if (fabsmax)
        *fabsmax = std::max(std::max(std::fabs(vals[0]), std::fabs(vals[1])), std::max(std::fabs(vals[2]), std::fabs(vals[3])));
    return (-vals[0] + 8 * vals[1] - 8 * vals[2] + vals[3]) / (12 * t);
}
} // namespace vf
