// Harness-supplied (stateful) time and spatial map types.  Every call reads member state, so that a dangling map
// pointer is a memory error AddressSanitizer can see, and logs its own `this` (when a log is installed) so that the
// map instance an optimizer really uses is observable at the client boundary.
#pragma once
#include "iface_opt.hpp"
#include <thread>

namespace vf
{
struct UserTimeMap
{
    UserTimeMapCfg cfg;
    double canary = 12345.678; // read on every call
    UserTimeMap() {}
    explicit UserTimeMap(const UserTimeMapCfg &c) : cfg(c) {}
    void note() const
    {
        if (g_timeMapCallLog)
            g_timeMapCallLog->push_back(this);
    }
    static double qi(double tau) { return tau > 0 ? ((0.5 * tau + 1.0) * tau + 1.0) : 1.0 / ((0.5 * tau - 1.0) * tau + 1.0); }
    double toTime(double tau) const
    {
        note();
        double k = canary == 12345.678 ? 1.0 : std::nan("");
        switch (cfg.mode)
        {
        case 0:
            return k * cfg.scale * std::exp(tau);
        case 1:
            return k * cfg.scale * qi(tau);
        default:
            return k * (cfg.scale * tau + cfg.shift);
        }
    }
    double toTau(double T) const
    {
        note();
        switch (cfg.mode)
        {
        case 0:
            return std::log(T / cfg.scale);
        case 1:
        {
            double u = T / cfg.scale;
            return u > 1.0 ? (std::sqrt(2.0 * u - 1.0) - 1.0) : (1.0 - std::sqrt(2.0 / u - 1.0));
        }
        default:
            return (T - cfg.shift) / cfg.scale;
        }
    }
    double backward(double tau, double T, double gradT) const
    {
        note();
        switch (cfg.mode)
        {
        case 0:
            // dT/dtau = T for T = scale*exp(tau): this map relies on the documented contract that the T it is handed is
            // toTime(tau) of the CURRENT decision vector
            return gradT * T;
        case 1:
        {
            if (tau > 0)
                return gradT * cfg.scale * (tau + 1.0);
            double den = (0.5 * tau - 1.0) * tau + 1.0;
            return gradT * cfg.scale * (1.0 - tau) / (den * den);
        }
        default:
            return gradT * cfg.scale;
        }
    }
};

struct UserSpatialMap
{
    UserSpatialMapCfg cfg;
    int dim = 1;
    double canary = 4321.5;
    UserSpatialMap() {}
    UserSpatialMap(const UserSpatialMapCfg &c, int d) : cfg(c), dim(d) {}
    void note() const
    {
        if (g_spatialMapCallLog)
            g_spatialMapCallLog->push_back(this);
    }
    int mode(int index) const { return cfg.modes[(size_t)(index < 0 ? 0 : index) % cfg.modes.size()]; }
    // the map of every waypoint is different (per-waypoint boxes / corridors): scale factor depending on the index
    double fi(int index) const { return 1.0 + 0.13 * ((index < 0 ? 0 : index) % 4); }
    int getUnconstrainedDim(int index) const
    {
        note();
        for (int i = 0; i < cfg.yields; ++i)
            std::this_thread::yield();
        int m = mode(index);
        if (canary != 4321.5)
            return -1;
        return m == 0 ? dim : (m == 1 ? 1 : dim + 1);
    }
    Eigen::VectorXd toPhysical(const Eigen::VectorXd &xi, int index) const
    {
        note();
        Eigen::VectorXd p(dim);
        switch (mode(index))
        {
        case 0:
            for (int j = 0; j < dim; ++j)
                p(j) = cfg.o[j] + cfg.S * fi(index) * xi(j);
            break;
        case 1:
            p(0) = cfg.c[0] + xi(0);
            for (int j = 1; j < dim; ++j)
                p(j) = cfg.c[j] + cfg.a[j] * fi(index) * std::sin(xi(0) + cfg.phi[j]);
            break;
        default:
            for (int j = 0; j < dim; ++j)
                p(j) = xi(j) + 0.3 * fi(index) * xi(dim) * cfg.w[j];
            break;
        }
        return p;
    }
    Eigen::VectorXd toUnconstrained(const Eigen::VectorXd &p, int index) const
    {
        note();
        switch (mode(index))
        {
        case 0:
        {
            Eigen::VectorXd xi(dim);
            for (int j = 0; j < dim; ++j)
                xi(j) = (p(j) - cfg.o[j]) / (cfg.S * fi(index));
            return xi;
        }
        case 1:
        {
            Eigen::VectorXd xi(1);
            xi(0) = p(0) - cfg.c[0];
            return xi;
        }
        default:
        {
            Eigen::VectorXd xi = Eigen::VectorXd::Zero(dim + 1);
            for (int j = 0; j < dim; ++j)
                xi(j) = p(j);
            return xi;
        }
        }
    }
    Eigen::VectorXd backwardGrad(const Eigen::VectorXd &xi, const Eigen::VectorXd &g, int index) const
    {
        note();
        switch (mode(index))
        {
        case 0:
        {
            Eigen::VectorXd r(dim);
            for (int j = 0; j < dim; ++j)
                r(j) = cfg.S * fi(index) * g(j);
            return r;
        }
        case 1:
        {
            Eigen::VectorXd r(1);
            r(0) = g(0);
            for (int j = 1; j < dim; ++j)
                r(0) += g(j) * cfg.a[j] * fi(index) * std::cos(xi(0) + cfg.phi[j]);
            return r;
        }
        default:
        {
            Eigen::VectorXd r(dim + 1);
            double acc = 0;
            for (int j = 0; j < dim; ++j)
            {
                r(j) = g(j);
                acc += 0.3 * fi(index) * cfg.w[j] * g(j);
            }
            r(dim) = acc;
            return r;
        }
        }
    }
};
} // namespace vf
