// Per-case choice of the adapters' calling-idiom routes (iface.hpp: Routes), derived from the case seed only, so that a
// replayed case takes the same routes.
#pragma once
#include "iface.hpp"
#include "monitor.hpp"

namespace vf
{
inline void installRoutesHook()
{
    g_beginCaseHook = [](Ctx &c, uint64_t caseSeed)
    {
        const uint64_t a = mix64(caseSeed, 0xACCE55ull) % 100, b = mix64(caseSeed, 0xA565ull) % 4;
        g_routes.access = a < 40 ? 0 : 1 + (int)((a - 40) / 15); // 40 % getTrajectory(), 15 % each of the other four
        g_routes.args = b < 2 ? 0 : (int)b - 1;
        static const char *an[] = {"route.access.getTrajectory", "route.access.getPPoly", "route.access.getTrajectoryCopy", "route.access.getPPolyCopy", "route.access.held_reference"};
        static const char *gn[] = {"route.args.mixed", "route.args.temporaries", "route.args.named_lvalues"};
        c.event(an[g_routes.access]);
        c.event(gn[g_routes.args]);
    };
}
} // namespace vf
