// Per-case choice of the adapters' calling-idiom routes (iface.hpp: Routes), derived from the case seed only, so that a
// replayed case takes the same routes.
#pragma once
#include "iface.hpp"
#include "monitor.hpp"

namespace vf
{
inline void installRoutesHook()
{
    g_beginCaseHook = [](Ctx &c, uint64_t caseSeed)
    {
        const uint64_t a = mix64(caseSeed, 0xACCE55ull) % 100, b = mix64(caseSeed, 0xA565ull) % 4;
        g_routes.access = a < 40 ? 0 : 1 + (int)((a - 40) / 15); // 40 % getTrajectory(), 15 % each of the other four
        g_routes.args = b < 2 ? 0 : (int)b - 1;
        g_routes.hold = (mix64(caseSeed, 0x401Dull) % 4) == 0 ? 1 : 0;
        const uint64_t pq = mix64(caseSeed, 0x93E8ull) % 20;
        g_routes.prequery = pq < 9 ? (int)pq + 1 : 0; // 45 % one of the nine queries, 55 % none
        if (g_routes.hold)
            c.event("route.result_held_by_reference_across_second_call");
        if (g_routes.prequery)
            c.event("route.prequery." + std::to_string(g_routes.prequery));
        static const char *an[] = {"route.access.getTrajectory", "route.access.getPPoly", "route.access.getTrajectoryCopy", "route.access.getPPolyCopy", "route.access.held_reference"};
        static const char *gn[] = {"route.args.mixed", "route.args.temporaries", "route.args.named_lvalues"};
        c.event(an[g_routes.access]);
        c.event(gn[g_routes.args]);
    };
}
} // namespace vf
