#pragma once
#include <cstdint>
#include <cmath>
#include <vector>
#include <string>
#include <cstring>

namespace vf
{
inline uint64_t splitmix64(uint64_t &x)
{
    uint64_t z = (x += 0x9e3779b97f4a7c15ULL);
    z = (z ^ (z >> 30)) * 0xbf58476d1ce4e5b9ULL;
    z = (z ^ (z >> 27)) * 0x94d049bb133111ebULL;
    return z ^ (z >> 31);
}
inline uint64_t mix64(uint64_t a, uint64_t b)
{
    uint64_t x = a ^ (b + 0x9e3779b97f4a7c15ULL + (a << 6) + (a >> 2));
    return splitmix64(x);
}
inline uint64_t hashStr(const char *s)
{
    uint64_t h = 1469598103934665603ULL;
    while (*s)
    {
        h ^= (unsigned char)*s++;
        h *= 1099511628211ULL;
    }
    return h;
}
inline uint64_t hashBytes(const void *p, size_t n, uint64_t h = 1469598103934665603ULL)
{
    const unsigned char *s = (const unsigned char *)p;
    for (size_t i = 0; i < n; ++i)
    {
        h ^= s[i];
        h *= 1099511628211ULL;
    }
    return h;
}
inline uint64_t hashDoubles(const double *p, size_t n, uint64_t h = 1469598103934665603ULL)
{
    return hashBytes(p, n * sizeof(double), h);
}

struct Rng
{
    uint64_t s[4];
    explicit Rng(uint64_t seed = 1)
    {
        uint64_t x = seed;
        for (int i = 0; i < 4; ++i)
            s[i] = splitmix64(x);
    }
    static inline uint64_t rotl(uint64_t x, int k) { return (x << k) | (x >> (64 - k)); }
    uint64_t u64()
    {
        const uint64_t result = rotl(s[1] * 5, 7) * 9;
        const uint64_t t = s[1] << 17;
        s[2] ^= s[0];
        s[3] ^= s[1];
        s[1] ^= s[2];
        s[0] ^= s[3];
        s[2] ^= t;
        s[3] = rotl(s[3], 45);
        return result;
    }
    double u01() { return (u64() >> 11) * (1.0 / 9007199254740992.0); }
    double uni(double a, double b) { return a + (b - a) * u01(); }
    int range(int lo, int hi) { return lo + (int)(u64() % (uint64_t)(hi - lo + 1)); } // inclusive
    bool coin(double p = 0.5) { return u01() < p; }
    double normal()
    {
        double u1 = u01(), u2 = u01();
        if (u1 < 1e-300)
            u1 = 1e-300;
        return std::sqrt(-2.0 * std::log(u1)) * std::cos(6.283185307179586 * u2);
    }
    double logUni(double a, double b) { return std::exp(uni(std::log(a), std::log(b))); }
    template <class T>
    const T &pick(const std::vector<T> &v) { return v[u64() % v.size()]; }
    template <class T>
    void shuffle(std::vector<T> &v)
    {
        for (size_t i = v.size(); i > 1; --i)
        {
            size_t j = u64() % i;
            std::swap(v[i - 1], v[j]);
        }
    }
};
} // namespace vf
