#include "costprog.hpp"
#include <stdexcept>
#include <algorithm>
#include <cmath>
#include <sstream>
#include <thread>

namespace vf
{
static std::atomic<uint64_t> g_recorderIds{1};
Recorder::Recorder() : perThread(64), id(g_recorderIds.fetch_add(1)) {}
int Recorder::slot()
{
    // keyed by a unique recorder id (not its address: pooled threads, e.g. OpenMP workers, outlive stack recorders)
    static thread_local int mySlot = -1;
    static thread_local uint64_t owner = 0;
    if (owner != id || mySlot < 0)
    {
        mySlot = nextSlot.fetch_add(1) % (int)perThread.size();
        owner = id;
    }
    return mySlot;
}
std::vector<RunSample> Recorder::merged() const
{
    std::vector<RunSample> all;
    for (auto &v : perThread)
        all.insert(all.end(), v.begin(), v.end());
    std::sort(all.begin(), all.end(), [](const RunSample &a, const RunSample &b) { return a.ticket < b.ticket; });
    return all;
}

CostProgram CostProgram::zero(int dim)
{
    CostProgram c;
    c.dim = dim;
    c.has_time = false;
    c.has_wp = false;
    return c;
}

CostProgram CostProgram::generate(Rng &r, int dim, int richness)
{
    CostProgram c;
    c.dim = dim;
    const double on = richness < 0 ? 0.6 : (richness == 0 ? 0.25 : 0.9);
    auto coef = [&](double mag) { return mag * (r.coin() ? 1 : -1) * r.uni(0.3, 1.0); };
    // time cost
    for (auto &w : c.tw)
        w = r.uni(0.2, 2.0);
    if (r.coin(on))
        c.t_quad = r.uni(0.01, 0.3);
    if (r.coin(on))
        c.t_pair = coef(0.2);
    if (r.coin(on))
    {
        c.t_sa = coef(0.5);
        c.t_sw = r.uni(0.1, 0.7);
    }
    // waypoint cost
    c.w_quad = r.coin(on) ? r.uni(0.1, 1.0) : 0;
    c.w_cross = r.coin(on) ? coef(0.3) : 0;
    c.w_sa = r.coin(on) ? coef(0.5) : 0;
    for (int j = 0; j < kMaxDim; ++j)
    {
        c.w_target[j] = r.normal();
        c.w_k[j] = r.uni(-1, 1);
    }
    if (c.w_quad == 0 && c.w_cross == 0 && c.w_sa == 0)
        c.w_quad = 0.5;
    // running cost: derivative magnitudes differ by orders of magnitude; keep the weights of high orders small
    static const double mags[5] = {1.0, 0.5, 0.1, 0.02, 0.004};
    bool any = false;
    if (richness == -2)
    {
        // a single running-cost term (penalty-style costs are exactly zero at many samples while their partials are not)
        int t = r.range(0, 9);
        switch (t)
        {
        case 0:
            c.x_pv = coef(0.5);
            break;
        case 1:
            c.x_va = coef(0.3);
            break;
        case 2:
            c.x_aj = coef(0.1);
            break;
        case 3:
            c.x_js = coef(0.02);
            break;
        case 4:
            c.x_ps = coef(0.05);
            break;
        case 5:
            c.l_d = coef(0.3);
            for (int j = 0; j < kMaxDim; ++j)
                c.l_k[j] = r.uni(-1, 1);
            break;
        case 6:
            c.s_a = coef(1.0);
            c.s_phi = 0.0; // sin(k.p): zero at the origin
            for (int j = 0; j < kMaxDim; ++j)
                c.s_k[j] = r.uni(-1, 1);
            break;
        default:
        {
            int k = r.range(0, 4);
            c.q_w[k] = r.uni(0.3, 1.0) * mags[k]; // |x|^2 with zero offset
            break;
        }
        }
        c.w_quad = 0.5;
        if (r.coin())
            c.seg_w = 0.1;
        c.usesClass[0] = c.q_w[0] != 0 || c.x_pv != 0 || c.x_ps != 0 || c.s_a != 0 || c.l_d != 0 || c.o_e != 0;
        c.usesClass[1] = c.q_w[1] != 0 || c.x_pv != 0 || c.x_va != 0 || c.c_b != 0 || c.m_c != 0;
        c.usesClass[2] = c.q_w[2] != 0 || c.x_va != 0 || c.x_aj != 0;
        c.usesClass[3] = c.q_w[3] != 0 || c.x_aj != 0 || c.x_js != 0;
        c.usesClass[4] = c.q_w[4] != 0 || c.x_js != 0 || c.x_ps != 0;
        c.usesTime = c.m_c != 0 || c.l_d != 0 || c.o_e != 0;
        return c;
    }
    for (int k = 0; k < 5; ++k)
        if (r.coin(on))
        {
            c.q_w[k] = r.uni(0.3, 1.0) * mags[k];
            for (int j = 0; j < kMaxDim; ++j)
                c.q_c[k][j] = r.normal() * (k == 0 ? 1.0 : 0.3);
            any = true;
        }
    if (r.coin(on))
        c.x_pv = coef(0.3);
    if (r.coin(on))
        c.x_va = coef(0.1);
    if (r.coin(on))
        c.x_aj = coef(0.02);
    if (r.coin(on))
        c.x_js = coef(0.004);
    if (r.coin(on))
        c.x_ps = coef(0.01);
    if (r.coin(on))
    {
        c.s_a = coef(1.0);
        c.s_phi = r.uni(0, 6.28);
        for (int j = 0; j < kMaxDim; ++j)
            c.s_k[j] = r.uni(-1, 1);
    }
    if (r.coin(on))
    {
        c.c_b = coef(0.5);
        for (int j = 0; j < kMaxDim; ++j)
            c.c_k[j] = r.uni(-0.5, 0.5);
    }
    if (r.coin(on))
    {
        c.m_c = r.uni(0.1, 0.5);
        c.m_om = r.uni(0.2, 2.0);
        c.m_psi = r.uni(0, 6.28);
    }
    if (r.coin(on))
    {
        c.l_d = coef(0.1);
        for (int j = 0; j < kMaxDim; ++j)
            c.l_k[j] = r.uni(-1, 1);
    }
    if (r.coin(on))
    {
        c.o_e = coef(2.0);
        c.o_sig2 = r.uni(1.0, 9.0);
        for (int j = 0; j < kMaxDim; ++j)
        {
            c.o0[j] = r.normal();
            c.o1[j] = r.uni(-0.3, 0.3);
        }
    }
    if (r.coin(on))
        c.seg_w = r.uni(0.05, 0.3);
    if (!any && c.s_a == 0 && c.m_c == 0 && c.o_e == 0)
    {
        c.q_w[1] = 0.5;
    }
    // classes written
    c.usesClass[0] = c.q_w[0] != 0 || c.x_pv != 0 || c.x_ps != 0 || c.s_a != 0 || c.l_d != 0 || c.o_e != 0;
    c.usesClass[1] = c.q_w[1] != 0 || c.x_pv != 0 || c.x_va != 0 || c.c_b != 0 || c.m_c != 0;
    c.usesClass[2] = c.q_w[2] != 0 || c.x_va != 0 || c.x_aj != 0;
    c.usesClass[3] = c.q_w[3] != 0 || c.x_aj != 0 || c.x_js != 0;
    c.usesClass[4] = c.q_w[4] != 0 || c.x_js != 0 || c.x_ps != 0;
    c.usesTime = c.m_c != 0 || c.l_d != 0 || c.o_e != 0;
    return c;
}

std::string CostProgram::describe() const
{
    std::ostringstream o;
    o << "time[lin";
    if (t_quad)
        o << " quad";
    if (t_pair)
        o << " pair";
    if (t_sa)
        o << " sin";
    o << "] wp[";
    if (w_quad)
        o << "quad ";
    if (w_cross)
        o << "cross ";
    if (w_sa)
        o << "sin";
    o << "] run[";
    static const char *nm[5] = {"p", "v", "a", "j", "s"};
    for (int k = 0; k < 5; ++k)
        if (q_w[k])
            o << "|" << nm[k] << "|^2 ";
    if (x_pv)
        o << "p.v ";
    if (x_va)
        o << "v.a ";
    if (x_aj)
        o << "a.j ";
    if (x_js)
        o << "j.s ";
    if (x_ps)
        o << "p.s ";
    if (s_a)
        o << "sin(k.p) ";
    if (c_b)
        o << "cos(k.v) ";
    if (m_c)
        o << "(1+.3sin(w tg))|v|^2 ";
    if (l_d)
        o << "tg(k.p) ";
    if (o_e)
        o << "exp(-|p-o(tg)|^2) ";
    if (dl_w)
        o << "deadline(tg)^3 ";
    if (wn_w)
        o << "window(tg)|p-c|^2 ";
    if (conditionalWrites)
        o << "(conditional writes) ";
    if (bar_r2 > 0)
        o << "hard-barrier(+inf) ";
    if (out_scale != 1.0)
        o << " out_scale=" << out_scale;
    if (seg_w)
        o << "*segweight";
    o << "]";
    if (pert != PERT_NONE)
        o << " PERTURBED(" << pert << "," << pert_index << "," << pert_coord << "," << pert_delta << ")";
    return o.str();
}

double CostProgram::timeCost(const std::vector<double> &T, Eigen::VectorXd &grad) const
{
    const int n = (int)T.size();
    if (rec)
    {
        std::lock_guard<std::mutex> lk(rec->mu);
        rec->timeArgs.push_back(T);
    }
    for (int i = 0; i < n; ++i)
        grad(i) = 0.0;
    if (!has_time)
        return 0.0;
    double c = 0, sum = 0, ws = 0;
    for (int i = 0; i < n; ++i)
    {
        c += tw[i % 8] * T[i];
        grad(i) += tw[i % 8];
        sum += T[i];
        ws += (i + 1) * T[i];
    }
    c += t_quad * sum * sum;
    for (int i = 0; i < n; ++i)
        grad(i) += 2 * t_quad * sum;
    for (int i = 0; i + 1 < n; ++i)
    {
        c += t_pair * T[i] * T[i + 1];
        grad(i) += t_pair * T[i + 1];
        grad(i + 1) += t_pair * T[i];
    }
    if (t_sa != 0)
    {
        c += t_sa * std::sin(t_sw * ws);
        for (int i = 0; i < n; ++i)
            grad(i) += t_sa * std::cos(t_sw * ws) * t_sw * (i + 1);
    }
    if (pert == PERT_TIME_GRAD && pert_index < n)
        grad(pert_index) += pert_delta;
    if (pert == PERT_TIME_OMIT)
        for (int i = 0; i < n; ++i)
            grad(i) = 0.0;
    return c;
}
long double CostProgram::timeValueLD(const std::vector<double> &T) const
{
    if (!has_time)
        return 0;
    const int n = (int)T.size();
    long double c = 0, sum = 0, ws = 0;
    for (int i = 0; i < n; ++i)
    {
        c += (long double)tw[i % 8] * T[i];
        sum += T[i];
        ws += (long double)(i + 1) * T[i];
    }
    c += (long double)t_quad * sum * sum;
    for (int i = 0; i + 1 < n; ++i)
        c += (long double)t_pair * T[i] * T[i + 1];
    if (t_sa != 0)
        c += (long double)t_sa * sinl((long double)t_sw * ws);
    return c;
}

double CostProgram::wpCost(const Eigen::MatrixXd &q, Eigen::MatrixXd &grad) const
{
    if (rec)
    {
        std::lock_guard<std::mutex> lk(rec->mu);
        rec->wpArgs.push_back(q);
    }
    const int n = (int)q.rows(), d = (int)q.cols();
    grad.setZero(n, d);
    if (!has_wp)
        return 0.0;
    double c = 0;
    for (int i = 0; i < n; ++i)
    {
        double rw = 1.0 + 0.25 * (i % 3);
        double arg = 0;
        for (int j = 0; j < d; ++j)
        {
            double e = q(i, j) - w_target[j];
            c += w_quad * rw * e * e;
            grad(i, j) += 2 * w_quad * rw * e;
            arg += w_k[j] * q(i, j);
        }
        if (w_sa != 0)
        {
            c += w_sa * std::sin(arg);
            for (int j = 0; j < d; ++j)
                grad(i, j) += w_sa * std::cos(arg) * w_k[j];
        }
        if (i + 1 < n && w_cross != 0)
            for (int j = 0; j < d; ++j)
            {
                c += w_cross * q(i, j) * q(i + 1, j);
                grad(i, j) += w_cross * q(i + 1, j);
                grad(i + 1, j) += w_cross * q(i, j);
            }
    }
    if (pert == PERT_WP_GRAD && pert_index < n && pert_coord < d)
        grad(pert_index, pert_coord) += pert_delta;
    if (pert == PERT_WP_OMIT_ROW && pert_index < n)
        for (int j = 0; j < d; ++j)
            grad(pert_index, j) = 0.0;
    return c;
}
long double CostProgram::wpValueLD(const Eigen::MatrixXd &q) const
{
    if (!has_wp)
        return 0;
    const int n = (int)q.rows(), d = (int)q.cols();
    long double c = 0;
    for (int i = 0; i < n; ++i)
    {
        long double rw = 1.0L + 0.25L * (i % 3);
        long double arg = 0;
        for (int j = 0; j < d; ++j)
        {
            long double e = (long double)q(i, j) - w_target[j];
            c += (long double)w_quad * rw * e * e;
            arg += (long double)w_k[j] * q(i, j);
        }
        if (w_sa != 0)
            c += (long double)w_sa * sinl(arg);
        if (i + 1 < n && w_cross != 0)
            for (int j = 0; j < d; ++j)
                c += (long double)w_cross * q(i, j) * q(i + 1, j);
    }
    return c;
}

namespace
{
template <class R>
R valueT(const CostProgram &c, R tg, int seg, const R *p, const R *v, const R *a, const R *j, const R *s)
{
    const int d = c.dim;
    const R *x[5] = {p, v, a, j, s};
    R val = 0;
    for (int k = 0; k < 5; ++k)
        if (c.q_w[k] != 0)
            for (int q = 0; q < d; ++q)
            {
                R e = x[k][q] - (R)c.q_c[k][q];
                val += (R)c.q_w[k] * e * e;
            }
    auto dot = [&](const R *u, const R *w)
    {
        R r = 0;
        for (int q = 0; q < d; ++q)
            r += u[q] * w[q];
        return r;
    };
    if (c.x_pv != 0)
        val += (R)c.x_pv * dot(p, v);
    if (c.x_va != 0)
        val += (R)c.x_va * dot(v, a);
    if (c.x_aj != 0)
        val += (R)c.x_aj * dot(a, j);
    if (c.x_js != 0)
        val += (R)c.x_js * dot(j, s);
    if (c.x_ps != 0)
        val += (R)c.x_ps * dot(p, s);
    if (c.s_a != 0)
    {
        R arg = (R)c.s_phi;
        for (int q = 0; q < d; ++q)
            arg += (R)c.s_k[q] * p[q];
        val += (R)c.s_a * std::sin(arg);
    }
    if (c.c_b != 0)
    {
        R arg = 0;
        for (int q = 0; q < d; ++q)
            arg += (R)c.c_k[q] * v[q];
        val += (R)c.c_b * std::cos(arg);
    }
    if (c.m_c != 0)
        val += (R)c.m_c * ((R)1 + (R)0.3 * std::sin((R)c.m_om * tg + (R)c.m_psi)) * dot(v, v);
    if (c.l_d != 0)
    {
        R lp = 0;
        for (int q = 0; q < d; ++q)
            lp += (R)c.l_k[q] * p[q];
        val += (R)c.l_d * tg * lp;
    }
    if (c.o_e != 0)
    {
        R d2 = 0;
        for (int q = 0; q < d; ++q)
        {
            R e = p[q] - ((R)c.o0[q] + (R)c.o1[q] * tg);
            d2 += e * e;
        }
        val += (R)c.o_e * std::exp(-d2 / (R)c.o_sig2);
    }
    if (c.dl_w != 0)
    {
        R e = tg - (R)c.dl_t;
        if (e > 0)
            val += (R)c.dl_w * e * e * e * ((R)1 + (R)0.1 * dot(v, v));
    }
    if (c.wn_w != 0 && tg > (R)c.wn_0 && tg < (R)c.wn_1)
    {
        R b = (tg - (R)c.wn_0) * ((R)c.wn_1 - tg);
        R d2 = 0;
        for (int q = 0; q < d; ++q)
        {
            R e = p[q] - (R)c.wn_c[q];
            d2 += e * e;
        }
        val += (R)c.wn_w * b * b * b * d2;
    }
    R sw = ((R)1 + (R)c.seg_w * (R)(seg % 5)) * (R)c.out_scale;
    return val * sw;
}
} // namespace

long double CostProgram::runValueLD(long double tg, int seg, const long double *p, const long double *v, const long double *a, const long double *j, const long double *s) const
{
    return valueT<long double>(*this, tg, seg, p, v, a, j, s);
}

double CostProgram::runCost(double t, double tg, int seg, const double *p, const double *v, const double *a, const double *j, const double *s,
                            double *gp, double *gv, double *ga, double *gj, double *gs, double &gt) const
{
    const int d = dim;
    // a callback that fails part-way through an evaluation (a map lookup outside the map): not at the first sample of the
    // segment, so that the evaluation has accumulated something already
    if (throw_at_seg >= 0 && seg == throw_at_seg && t > 0)
        throw std::out_of_range("cost program: position outside the map");
    if (throw_at_call >= 0 && ++call_count == throw_at_call)
        throw std::out_of_range("cost program: position outside the map (n-th call)");
    if (rec)
    {
        RunSample rs;
        rs.ticket = rec->ticket.fetch_add(1);
        rs.seg = seg;
        rs.t = t;
        rs.tg = tg;
        const double *x[5] = {p, v, a, j, s};
        for (int k = 0; k < 5; ++k)
            for (int q = 0; q < kMaxDim; ++q)
                rs.x[k][q] = q < d ? x[k][q] : 0.0;
        int sl = rec->slot();
        rs.thread = sl;
        rec->perThread[sl].push_back(rs);
    }
    const double sw = (1.0 + seg_w * (seg % 5)) * out_scale;
    double G[5][kMaxDim] = {};
    double Gt = 0;
    const double *x[5] = {p, v, a, j, s};
    for (int k = 0; k < 5; ++k)
        if (q_w[k] != 0)
            for (int q = 0; q < d; ++q)
                G[k][q] += 2 * q_w[k] * (x[k][q] - q_c[k][q]);
    auto cross = [&](double w, int k1, int k2)
    {
        if (w == 0)
            return;
        for (int q = 0; q < d; ++q)
        {
            G[k1][q] += w * x[k2][q];
            G[k2][q] += w * x[k1][q];
        }
    };
    cross(x_pv, 0, 1);
    cross(x_va, 1, 2);
    cross(x_aj, 2, 3);
    cross(x_js, 3, 4);
    cross(x_ps, 0, 4);
    if (s_a != 0)
    {
        double arg = s_phi;
        for (int q = 0; q < d; ++q)
            arg += s_k[q] * p[q];
        for (int q = 0; q < d; ++q)
            G[0][q] += s_a * std::cos(arg) * s_k[q];
    }
    if (c_b != 0)
    {
        double arg = 0;
        for (int q = 0; q < d; ++q)
            arg += c_k[q] * v[q];
        for (int q = 0; q < d; ++q)
            G[1][q] += -c_b * std::sin(arg) * c_k[q];
    }
    if (m_c != 0)
    {
        double f = 1 + 0.3 * std::sin(m_om * tg + m_psi);
        double vv = 0;
        for (int q = 0; q < d; ++q)
        {
            G[1][q] += 2 * m_c * f * v[q];
            vv += v[q] * v[q];
        }
        Gt += m_c * 0.3 * std::cos(m_om * tg + m_psi) * m_om * vv;
    }
    if (l_d != 0)
    {
        double lp = 0;
        for (int q = 0; q < d; ++q)
        {
            G[0][q] += l_d * tg * l_k[q];
            lp += l_k[q] * p[q];
        }
        Gt += l_d * lp;
    }
    if (o_e != 0)
    {
        double d2 = 0, e[kMaxDim], eo = 0;
        for (int q = 0; q < d; ++q)
        {
            e[q] = p[q] - (o0[q] + o1[q] * tg);
            d2 += e[q] * e[q];
        }
        double ex = o_e * std::exp(-d2 / o_sig2);
        for (int q = 0; q < d; ++q)
        {
            G[0][q] += ex * (-2 * e[q] / o_sig2);
            eo += e[q] * o1[q];
        }
        Gt += ex * (2 * eo / o_sig2);
    }
    if (dl_w != 0)
    {
        double e = tg - dl_t;
        if (e > 0)
        {
            double vv = 0;
            for (int q = 0; q < d; ++q)
                vv += v[q] * v[q];
            for (int q = 0; q < d; ++q)
                G[1][q] += dl_w * e * e * e * 0.2 * v[q];
            Gt += dl_w * 3 * e * e * (1 + 0.1 * vv);
        }
    }
    bool timeActive = (m_c != 0 || l_d != 0 || o_e != 0);
    if (wn_w != 0 && tg > wn_0 && tg < wn_1)
    {
        double b = (tg - wn_0) * (wn_1 - tg);
        double d2 = 0;
        for (int q = 0; q < d; ++q)
        {
            double e = p[q] - wn_c[q];
            d2 += e * e;
            G[0][q] += wn_w * b * b * b * 2 * e;
        }
        Gt += wn_w * 3 * b * b * (wn_0 + wn_1 - 2 * tg) * d2;
        timeActive = true;
    }
    if (dl_w != 0 && tg > dl_t)
        timeActive = true;
    // conditional style: an output is written only when this sample has something to report for it (a user functor of
    // the form "if (inside the window) { ...; gt = ...; }"); the library zero-initialises every output before each call
    double *out[5] = {gp, gv, ga, gj, gs};
    for (int k = 0; k < 5; ++k)
        if (usesClass[k])
        {
            bool any = false;
            for (int q = 0; q < d; ++q)
                any = any || G[k][q] != 0.0;
            if (any || !conditionalWrites)
                for (int q = 0; q < d; ++q)
                    out[k][q] = sw * G[k][q];
        }
    if (usesTime && (timeActive || !conditionalWrites))
        gt = sw * Gt;
    if (bar_r2 > 0)
    {
        double d2 = 0;
        for (int q = 0; q < d; ++q)
            d2 += (p[q] - bar_c[q]) * (p[q] - bar_c[q]);
        if (d2 < bar_r2)
            return INFINITY;
    }
    if (pert >= PERT_GP && pert <= PERT_GS)
        out[pert - PERT_GP][pert_coord % d] += pert_delta;
    if (pert == PERT_GT)
        gt += pert_delta;
    return valueT<double>(*this, tg, seg, p, v, a, j, s);
}
} // namespace vf
