#include "eigen_assert_hook.hpp"
#include "iface.hpp"
#include "iface_opt.hpp"
#include <cmath>
#include <map>
#include <stdexcept>
namespace vf
{
char g_case_desc[512] = "none";
Routes g_routes;
namespace
{
std::map<std::pair<int, int>, SplineFactory> &splineReg()
{
    static std::map<std::pair<int, int>, SplineFactory> m;
    return m;
}
std::map<std::pair<int, int>, PPolyFactory> &ppolyReg()
{
    static std::map<std::pair<int, int>, PPolyFactory> m;
    return m;
}
std::map<int, BcProbe> &bcReg()
{
    static std::map<int, BcProbe> m;
    return m;
}
} // namespace
void registerSpline(const SplineFactory &f) { splineReg()[{f.order, f.dim}] = f; }
void registerPPoly(const PPolyFactory &f) { ppolyReg()[{f.dim, f.fixedOrder}] = f; }
void registerBcProbe(const BcProbe &p) { bcReg()[p.dim] = p; }
static const SplineFactory &sf(int order, int dim)
{
    auto it = splineReg().find({order, dim});
    if (it == splineReg().end())
        throw std::runtime_error("no spline cell");
    return it->second;
}
std::unique_ptr<ISpline> makeSpline(int order, int dim) { return sf(order, dim).makeDefault(); }
Problem staticInitProblem(int order, int dim)
{
    // fixed data, no generator: this runs before main()
    Problem p;
    p.order = order;
    p.dim = dim;
    p.N = 3;
    p.T = {0.7, 1.3, 0.9};
    p.t0 = 0.25;
    p.P.resize(4, dim);
    p.bc.setZero(dim);
    for (int j = 0; j < dim; ++j)
    {
        for (int i = 0; i < 4; ++i)
            p.P(i, j) = 2.0 * std::sin(1.3 * i + 0.7 * j) + 0.1 * j;
        p.bc.sv(j) = 0.3 + 0.1 * j;
        p.bc.ev(j) = -0.2 + 0.05 * j;
        p.bc.sa(j) = 0.15 * (j + 1);
        p.bc.ea(j) = -0.1;
        p.bc.sj(j) = 0.05;
        p.bc.ej(j) = 0.02 * (j + 1);
    }
    return p;
}
const StaticInitRecord &splineStaticInit(int order, int dim)
{
    const SplineFactory &f = sf(order, dim);
    if (!f.staticInit)
        throw std::runtime_error("no static-initialisation record for this spline cell");
    return *f.staticInit;
}
std::unique_ptr<ISpline> makeSplineDur(const Problem &p) { return sf(p.order, p.dim).makeCtor(p, 0); }
std::unique_ptr<ISpline> makeSplinePts(const Problem &p) { return sf(p.order, p.dim).makeCtor(p, 1); }
std::unique_ptr<ISpline> makeSplineDurDefaultBC(const Problem &p) { return sf(p.order, p.dim).makeCtor(p, 2); }
std::unique_ptr<ISpline> makeSplinePtsDefaultBC(const Problem &p) { return sf(p.order, p.dim).makeCtor(p, 3); }
bool haveSplineCell(int order, int dim) { return splineReg().count({order, dim}) > 0; }
std::vector<std::pair<int, int>> splineCells()
{
    std::vector<std::pair<int, int>> r;
    for (auto &kv : splineReg())
        r.push_back(kv.first);
    return r;
}
std::unique_ptr<IPPoly> makePPoly(int dim, int fixedOrder)
{
    auto it = ppolyReg().find({dim, fixedOrder});
    if (it == ppolyReg().end())
        throw std::runtime_error("no ppoly cell");
    return it->second.make();
}
bool havePPolyCell(int dim, int fixedOrder) { return ppolyReg().count({dim, fixedOrder}) > 0; }
std::vector<std::pair<int, int>> ppolyCells()
{
    std::vector<std::pair<int, int>> r;
    for (auto &kv : ppolyReg())
        r.push_back(kv.first);
    return r;
}
MatrixXd bcCtorProbe(int dim, int nargs, const MatrixXd &args)
{
    auto it = bcReg().find(dim);
    if (it == bcReg().end())
        throw std::runtime_error("no bc probe");
    return it->second.fn(nargs, args);
}
std::vector<const void *> *g_timeMapCallLog = nullptr;
std::vector<const void *> *g_spatialMapCallLog = nullptr;
namespace
{
std::map<std::pair<int, int>, OptFactory> &optReg()
{
    static std::map<std::pair<int, int>, OptFactory> m;
    return m;
}
} // namespace
void registerOpt(const OptFactory &f) { optReg()[{f.order, f.dim}] = f; }
std::unique_ptr<IOptEnv> makeOptEnv(int order, int dim, int combo)
{
    auto it = optReg().find({order, dim});
    if (it == optReg().end())
        throw std::runtime_error("no optimizer cell");
    return it->second.make(combo);
}
bool haveOptCell(int order, int dim) { return optReg().count({order, dim}) > 0; }
std::vector<std::pair<int, int>> optCells()
{
    std::vector<std::pair<int, int>> r;
    for (auto &kv : optReg())
        r.push_back(kv.first);
    return r;
}
} // namespace vf
