#include "eigen_assert_hook.hpp"
#include "iface.hpp"
#include "iface_opt.hpp"
#include <map>
#include <stdexcept>
namespace vf
{
char g_case_desc[512] = "none";
Routes g_routes;
namespace
{
std::map<std::pair<int, int>, SplineFactory> &splineReg()
{
    static std::map<std::pair<int, int>, SplineFactory> m;
    return m;
}
std::map<std::pair<int, int>, PPolyFactory> &ppolyReg()
{
    static std::map<std::pair<int, int>, PPolyFactory> m;
    return m;
}
std::map<int, BcProbe> &bcReg()
{
    static std::map<int, BcProbe> m;
    return m;
}
} // namespace
void registerSpline(const SplineFactory &f) { splineReg()[{f.order, f.dim}] = f; }
void registerPPoly(const PPolyFactory &f) { ppolyReg()[{f.dim, f.fixedOrder}] = f; }
void registerBcProbe(const BcProbe &p) { bcReg()[p.dim] = p; }
static const SplineFactory &sf(int order, int dim)
{
    auto it = splineReg().find({order, dim});
    if (it == splineReg().end())
        throw std::runtime_error("no spline cell");
    return it->second;
}
std::unique_ptr<ISpline> makeSpline(int order, int dim) { return sf(order, dim).makeDefault(); }
std::unique_ptr<ISpline> makeSplineDur(const Problem &p) { return sf(p.order, p.dim).makeCtor(p, 0); }
std::unique_ptr<ISpline> makeSplinePts(const Problem &p) { return sf(p.order, p.dim).makeCtor(p, 1); }
std::unique_ptr<ISpline> makeSplineDurDefaultBC(const Problem &p) { return sf(p.order, p.dim).makeCtor(p, 2); }
std::unique_ptr<ISpline> makeSplinePtsDefaultBC(const Problem &p) { return sf(p.order, p.dim).makeCtor(p, 3); }
bool haveSplineCell(int order, int dim) { return splineReg().count({order, dim}) > 0; }
std::vector<std::pair<int, int>> splineCells()
{
    std::vector<std::pair<int, int>> r;
    for (auto &kv : splineReg())
        r.push_back(kv.first);
    return r;
}
std::unique_ptr<IPPoly> makePPoly(int dim, int fixedOrder)
{
    auto it = ppolyReg().find({dim, fixedOrder});
    if (it == ppolyReg().end())
        throw std::runtime_error("no ppoly cell");
    return it->second.make();
}
bool havePPolyCell(int dim, int fixedOrder) { return ppolyReg().count({dim, fixedOrder}) > 0; }
std::vector<std::pair<int, int>> ppolyCells()
{
    std::vector<std::pair<int, int>> r;
    for (auto &kv : ppolyReg())
        r.push_back(kv.first);
    return r;
}
MatrixXd bcCtorProbe(int dim, int nargs, const MatrixXd &args)
{
    auto it = bcReg().find(dim);
    if (it == bcReg().end())
        throw std::runtime_error("no bc probe");
    return it->second.fn(nargs, args);
}
std::vector<const void *> *g_timeMapCallLog = nullptr;
std::vector<const void *> *g_spatialMapCallLog = nullptr;
namespace
{
std::map<std::pair<int, int>, OptFactory> &optReg()
{
    static std::map<std::pair<int, int>, OptFactory> m;
    return m;
}
} // namespace
void registerOpt(const OptFactory &f) { optReg()[{f.order, f.dim}] = f; }
std::unique_ptr<IOptEnv> makeOptEnv(int order, int dim, int combo)
{
    auto it = optReg().find({order, dim});
    if (it == optReg().end())
        throw std::runtime_error("no optimizer cell");
    return it->second.make(combo);
}
bool haveOptCell(int order, int dim) { return optReg().count({order, dim}) > 0; }
std::vector<std::pair<int, int>> optCells()
{
    std::vector<std::pair<int, int>> r;
    for (auto &kv : optReg())
        r.push_back(kv.first);
    return r;
}
} // namespace vf
