// Type-erased view of SplineOptimizer<DIM, Spline, TimeMap, SpatialMap> instantiations.
#pragma once
#include "iface.hpp"
#include "costprog.hpp"

namespace vf
{
struct OptFlags
{
    bool f[8] = {false, false, false, false, false, false, false, false}; // start_p start_v start_a start_j end_p end_v end_a end_j
    static OptFlags fromByte(int b)
    {
        OptFlags o;
        for (int i = 0; i < 8; ++i)
            o.f[i] = (b >> i) & 1;
        return o;
    }
    int toByte() const
    {
        int b = 0;
        for (int i = 0; i < 8; ++i)
            b |= (f[i] ? 1 : 0) << i;
        return b;
    }
};

// map combos: 0 = (QuadInvTimeMap, IdentitySpatialMap)  1 = (IdentityTimeMap, IdentitySpatialMap)  2 = (UserTimeMap, UserSpatialMap)
struct UserTimeMapCfg
{
    int mode = 0; // 0 exp(tau)*scale   1 scale*quadinv(tau)   2 affine scale*tau + shift
    double scale = 1.0, shift = 0.0;
};
struct UserSpatialMapCfg
{
    // per point index i: mode[i % modes.size()]:
    //   0 affine p = o + S xi          (dof = DIM)
    //   1 curve  p0 = c0 + xi, pj = cj + aj sin(xi + phij)   (dof = 1)
    //   2 redundant p = xi[0..DIM) + 0.3 xi[DIM] w   (dof = DIM + 1)
    std::vector<int> modes{0};
    double S = 1.0;
    std::array<double, kMaxDim> o{}, c{}, a{}, phi{}, w{};
    int yields = 0; // getUnconstrainedDim yields this many times (schedule perturbation at an existing callback point)
};

struct EvalOpts
{
    bool threeCosts = true;
    int ws = -1;      // -1: built-in workspace (nullptr argument); >= 0: environment workspace handle
    int executor = 0; // 0 default argument (SerialExecutor), 1 explicit SerialExecutor, 2 permuting executor (perm), 3 threaded executor (threads spawned per call), 4 OpenMPExecutor, 5 persistent worker pool created before the call
    std::vector<int> perm;
    int threads = 2;
    uint64_t partitionSeed = 0;
};
struct CheckResult
{
    bool valid = false;
    double error_norm = 0, rel_error = 0;
    VectorXd analytical, numerical;
    std::string report;
};

struct IOptimizer
{
    virtual ~IOptimizer() {}
    virtual int order() const = 0;
    virtual int dim() const = 0;
    virtual int combo() const = 0;
    virtual bool setInitDur(const std::vector<double> &T, const MatrixXd &P, double t0, const BC &bc) = 0;
    virtual bool setInitPts(const std::vector<double> &tp, const MatrixXd &P, const BC &bc) = 0;
    virtual bool reinitFromOwnSpline(int which) = 0; // setInitState(getOptimalSpline()->getters...): 0 durations overload, 1 time-points overload
    virtual void setFlags(const OptFlags &f) = 0;
    virtual void setRho(double rho) = 0;
    virtual void setSteps(int k) = 0;
    virtual void setTimeMap(int handle) = 0;    // -1: nullptr (back to the default map)
    virtual void setSpatialMap(int handle) = 0; // -1: nullptr
    virtual bool isValid() const = 0;
    virtual bool boolConv() const = 0;
    virtual std::string lastError() const = 0;
    virtual bool checkValidity(std::string *msg) const = 0;
    virtual int getDimension() const = 0;
    virtual VectorXd initialGuess() const = 0;
    virtual double evaluate(const VectorXd &x, VectorXd &grad, const CostProgram &prog, const EvalOpts &o) const = 0;
    // evaluate() with a program whose running cost throws: returns true when the exception reached the caller
    virtual bool evaluateThrows(const VectorXd &x, const CostProgram &prog, const EvalOpts &o) const = 0;
    // checkGradients() with a program whose running cost throws: returns true when the exception reached the caller
    virtual bool checkGradientsThrows(const VectorXd &x, const CostProgram &prog, bool threeCosts, int ws) = 0;
    virtual CheckResult checkGradients(const VectorXd &x, const CostProgram &prog, bool threeCosts, int ws, bool defaults, double eps, double tol) = 0;
    virtual std::unique_ptr<ISpline> optimalSpline() const = 0; // copy of *getOptimalSpline(), null if none
    virtual const void *optimalSplineAddr() const = 0;
    virtual std::unique_ptr<IOptimizer> clone() const = 0; // heap copy-construction
    virtual void assignFrom(const IOptimizer &o) = 0;
    virtual std::unique_ptr<IOptimizer> cloneByMove() const = 0; // Opt(std::move(temporary copy)); the temporary is destroyed
    virtual void assignFromMoved(const IOptimizer &o) = 0;       // *this = std::move(temporary copy of o); the temporary is destroyed
    virtual void selfAssign() = 0;
    virtual const void *addr() const = 0; // footprint of the wrapped optimizer object
    virtual size_t size() const = 0;
};

// Owns what the optimizers only reference: user map instances and external workspaces.
struct IOptEnv
{
    virtual ~IOptEnv() {}
    virtual int order() const = 0;
    virtual int dim() const = 0;
    virtual int combo() const = 0;
    virtual std::unique_ptr<IOptimizer> makeOptimizer() = 0;
    virtual int newWorkspace() = 0;
    virtual void freeWorkspace(int h) = 0;
    virtual std::unique_ptr<ISpline> wsSpline(int h) const = 0; // copy of the workspace's spline
    virtual int newTimeMap(const UserTimeMapCfg &cfg) = 0;
    virtual int newSpatialMap(const UserSpatialMapCfg &cfg) = 0;
    virtual const void *timeMapAddr(int h) const = 0;
    virtual const void *spatialMapAddr(int h) const = 0;
    // direct access to map functions (for the harness's independent decoding)
    virtual double tmToTime(int h, double tau) const = 0; // h = -1: a default-constructed map of the optimizer's TimeMap type
    virtual double tmToTau(int h, double T) const = 0;
    virtual double tmBackward(int h, double tau, double T, double g) const = 0;
    virtual int smDof(int h, int index) const = 0;
    virtual VectorXd smToPhysical(int h, const VectorXd &xi, int index) const = 0;
    virtual VectorXd smToUnconstrained(int h, const VectorXd &p, int index) const = 0;
    virtual VectorXd smBackward(int h, const VectorXd &xi, const VectorXd &g, int index) const = 0;
};

// log of the `this` pointers of every user-map call (C15); null = off.  Single-threaded use only.
extern std::vector<const void *> *g_timeMapCallLog;
extern std::vector<const void *> *g_spatialMapCallLog;

std::unique_ptr<IOptEnv> makeOptEnv(int order, int dim, int combo);
bool haveOptCell(int order, int dim);
std::vector<std::pair<int, int>> optCells();
struct OptFactory
{
    int order, dim;
    std::function<std::unique_ptr<IOptEnv>(int combo)> make;
};
void registerOpt(const OptFactory &f);
} // namespace vf
