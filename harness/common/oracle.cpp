#include "oracle.hpp"
#include <cmath>
#include <stdexcept>

namespace vf
{
namespace
{
template <class R>
inline R rabs(R x) { return x < 0 ? -x : x; }

// Gaussian elimination with full pivoting; A is n x n row-major, B n x m. Solves in place, result in X (n x m).
template <class R>
void solveFullPivot(std::vector<R> &A, std::vector<R> &B, int n, int m, std::vector<R> &X)
{
    std::vector<int> colperm(n);
    for (int i = 0; i < n; ++i)
        colperm[i] = i;
    for (int k = 0; k < n; ++k)
    {
        int pr = k, pc = k;
        R best = 0;
        for (int i = k; i < n; ++i)
            for (int j = k; j < n; ++j)
            {
                R v = rabs(A[(size_t)i * n + j]);
                if (v > best)
                {
                    best = v;
                    pr = i;
                    pc = j;
                }
            }
        if (best == 0)
            throw std::runtime_error("oracle: singular system");
        if (pr != k)
        {
            for (int j = 0; j < n; ++j)
                std::swap(A[(size_t)pr * n + j], A[(size_t)k * n + j]);
            for (int j = 0; j < m; ++j)
                std::swap(B[(size_t)pr * m + j], B[(size_t)k * m + j]);
        }
        if (pc != k)
        {
            for (int i = 0; i < n; ++i)
                std::swap(A[(size_t)i * n + pc], A[(size_t)i * n + k]);
            std::swap(colperm[pc], colperm[k]);
        }
        R piv = A[(size_t)k * n + k];
        for (int i = k + 1; i < n; ++i)
        {
            R f = A[(size_t)i * n + k] / piv;
            if (f == 0)
                continue;
            for (int j = k + 1; j < n; ++j)
                A[(size_t)i * n + j] -= f * A[(size_t)k * n + j];
            for (int j = 0; j < m; ++j)
                B[(size_t)i * m + j] -= f * B[(size_t)k * m + j];
            A[(size_t)i * n + k] = 0;
        }
    }
    std::vector<R> Y((size_t)n * m);
    for (int k = n - 1; k >= 0; --k)
    {
        for (int j = 0; j < m; ++j)
        {
            R s = B[(size_t)k * m + j];
            for (int c = k + 1; c < n; ++c)
                s -= A[(size_t)k * n + c] * Y[(size_t)c * m + j];
            Y[(size_t)k * m + j] = s / A[(size_t)k * n + k];
        }
    }
    X.assign((size_t)n * m, R(0));
    for (int k = 0; k < n; ++k)
        for (int j = 0; j < m; ++j)
            X[(size_t)colperm[k] * m + j] = Y[(size_t)k * m + j];
}

template <class R>
R rpow(R x, int k)
{
    R r = 1;
    for (int i = 0; i < k; ++i)
        r *= x;
    return r;
}

template <class R>
MatrixXld denseRefT(const Problem &p)
{
    const int s = p.s(), nc = 2 * s, N = p.N, n = nc * N, m = p.dim;
    std::vector<R> A((size_t)n * n, R(0)), B((size_t)n * m, R(0)), X;
    std::vector<R> h(N);
    for (int i = 0; i < N; ++i)
        h[i] = (R)p.T[i];
    int row = 0;
    auto a = [&](int r, int seg, int k) -> R & { return A[(size_t)r * n + seg * nc + k]; };
    // unknowns: normalised coefficients a_{i,k} = c_{i,k} h_i^k
    for (int i = 0; i < N; ++i)
    {
        a(row, i, 0) = 1;
        for (int j = 0; j < m; ++j)
            B[(size_t)row * m + j] = (R)p.P(i, j);
        ++row;
        for (int k = 0; k < nc; ++k)
            a(row, i, k) = 1;
        for (int j = 0; j < m; ++j)
            B[(size_t)row * m + j] = (R)p.P(i + 1, j);
        ++row;
    }
    for (int d = 1; d <= s - 1; ++d)
    {
        a(row, 0, d) = (R)ffact(d, d);
        R hd = rpow(h[0], d);
        for (int j = 0; j < m; ++j)
            B[(size_t)row * m + j] = (R)p.bc.s(d)(j) * hd;
        ++row;
        for (int k = d; k < nc; ++k)
            a(row, N - 1, k) = (R)ffact(k, d);
        hd = rpow(h[N - 1], d);
        for (int j = 0; j < m; ++j)
            B[(size_t)row * m + j] = (R)p.bc.e(d)(j) * hd;
        ++row;
    }
    for (int i = 1; i < N; ++i)
    {
        R hm = h[i - 1] < h[i] ? h[i - 1] : h[i];
        for (int d = 1; d <= 2 * s - 2; ++d)
        {
            R fl = rpow(hm / h[i - 1], d), fr = rpow(hm / h[i], d);
            for (int k = d; k < nc; ++k)
                a(row, i - 1, k) = (R)ffact(k, d) * fl;
            a(row, i, d) = -(R)ffact(d, d) * fr;
            ++row;
        }
    }
    if (row != n)
        throw std::runtime_error("oracle: row count");
    solveFullPivot<R>(A, B, n, m, X);
    MatrixXld C(n, m);
    for (int i = 0; i < N; ++i)
        for (int k = 0; k < nc; ++k)
        {
            R hk = rpow(h[i], k);
            for (int j = 0; j < m; ++j)
                C(i * nc + k, j) = (LD)(X[(size_t)(i * nc + k) * m + j] / hk);
        }
    return C;
}
} // namespace

MatrixXld denseReference(const Problem &p, bool quad)
{
    if (quad)
        return denseRefT<__float128>(p);
    return denseRefT<LD>(p);
}

PolyVal polyDeriv(const LD *c, int nc, LD t, int k)
{
    PolyVal r;
    if (k >= nc || k < 0)
        return r;
    // sum_{j>=k} ffact(j,k) c_j t^(j-k)
    LD tp = 1;
    for (int j = k; j < nc; ++j)
    {
        LD term = ffact(j, k) * c[j] * tp;
        r.value += term;
        r.abssum += rabs(term);
        tp *= t;
    }
    return r;
}
PolyVal polyDerivD(const double *c, int stride, int nc, LD t, int k)
{
    PolyVal r;
    if (k >= nc || k < 0)
        return r;
    LD tp = 1;
    for (int j = k; j < nc; ++j)
    {
        LD term = ffact(j, k) * (LD)c[(size_t)j * stride] * tp;
        r.value += term;
        r.abssum += rabs(term);
        tp *= t;
    }
    return r;
}

PolyVal energyExact(const double *c, int stride, int nc, int s, LD h)
{
    PolyVal r;
    for (int j = s; j < nc; ++j)
        for (int k = s; k < nc; ++k)
        {
            int e = j + k - 2 * s + 1;
            LD term = ffact(j, s) * ffact(k, s) * (LD)c[(size_t)j * stride] * (LD)c[(size_t)k * stride] * rpow<LD>(h, e) / (LD)e;
            r.value += term;
            r.abssum += rabs(term);
        }
    return r;
}

namespace
{
template <class M>
Scales localScalesT(const Problem &p, const M &C)
{
    const int nc = p.ncoef(), N = p.N, m = p.dim;
    Scales sc;
    sc.sigma.resize(N, m);
    sc.sglobal.assign(m, 0);
    for (int i = 0; i < N; ++i)
    {
        LD h = p.T[i];
        for (int j = 0; j < m; ++j)
        {
            LD sg = rabs((LD)p.P(i + 1, j) - (LD)p.P(i, j));
            LD hk = h;
            for (int k = 1; k < nc; ++k)
            {
                LD v = rabs((LD)C(i * nc + k, j)) * hk;
                if (v > sg)
                    sg = v;
                hk *= h;
            }
            sc.sigma(i, j) = sg;
            if (sg > sc.sglobal[j])
                sc.sglobal[j] = sg;
        }
    }
    // a trajectory that moves by less than 1e-6 of its coordinate magnitude is judged relative to 1e-4 of that magnitude
    // (rounding of the data themselves: waypoint differences carry eps*|P|)
    for (int j = 0; j < m; ++j)
    {
        LD pm = 0;
        for (int i = 0; i <= N; ++i)
            pm = std::max(pm, rabs((LD)p.P(i, j)));
        if (1e-4L * pm > sc.sglobal[j])
            sc.sglobal[j] = 1e-4L * pm;
    }
    return sc;
}

inline double ratio(LD num, LD den)
{
    if (num == 0)
        return 0.0;
    if (!(den > 0))
        return INFINITY;
    LD r = num / den;
    if (std::isnan((double)r))
        return INFINITY;
    return (double)r;
}

template <class M>
Residuals definingResidualsT(const Problem &p, const M &C, double gfloor)
{
    const int s = p.s(), nc = 2 * s, N = p.N, m = p.dim;
    Residuals R;
    Scales sc = localScalesT(p, C);
    std::vector<LD> col(nc), colR(nc);
    for (int j = 0; j < m; ++j)
    {
        const LD Sg = sc.sglobal[j];
        for (int i = 0; i < N; ++i)
        {
            LD h = p.T[i];
            for (int k = 0; k < nc; ++k)
                col[k] = (LD)C(i * nc + k, j);
            const LD sig = sc.sigma(i, j);
            // interpolation
            LD scale = rabs((LD)p.P(i, j)) + rabs((LD)p.P(i + 1, j)) + sig + gfloor * Sg;
            double r0 = ratio(rabs(col[0] - (LD)p.P(i, j)), scale);
            PolyVal pe = polyDeriv(col.data(), nc, h, 0);
            double r1 = ratio(rabs(pe.value - (LD)p.P(i + 1, j)), scale);
            double rr = std::max(r0, r1);
            if (!(rr <= R.interp))
            {
                R.interp = std::isnan(rr) ? INFINITY : rr;
                R.interp_at = i;
            }
            // continuity with next segment
            if (i + 1 < N)
            {
                LD hR = p.T[i + 1];
                for (int k = 0; k < nc; ++k)
                    colR[k] = (LD)C((i + 1) * nc + k, j);
                const LD sigR = sc.sigma(i + 1, j);
                LD hm = h < hR ? h : hR;
                for (int d = 1; d <= 2 * s - 2; ++d)
                {
                    PolyVal L = polyDeriv(col.data(), nc, h, d);
                    LD Rv = ffact(d, d) * colR[d];
                    LD W = ffact(nc - 1, d);
                    LD sc_d = W * (sig / rpow<LD>(h, d) + sigR / rpow<LD>(hR, d) + gfloor * Sg / rpow<LD>(hm, d));
                    double rc = ratio(rabs(L.value - Rv), sc_d);
                    if (!(rc <= R.cont[d]))
                    {
                        R.cont[d] = std::isnan(rc) ? INFINITY : rc;
                        R.cont_at[d] = i + 1;
                    }
                    double rr2 = ratio(rabs(L.value - Rv), L.abssum + rabs(Rv));
                    if (!(rr2 <= R.contRel[d]))
                    {
                        R.contRel[d] = std::isnan(rr2) ? INFINITY : rr2;
                        R.contRel_at[d] = i + 1;
                    }
                }
            }
        }
        // boundary states
        for (int d = 1; d <= s - 1; ++d)
        {
            LD W = ffact(nc - 1, d);
            {
                LD h = p.T[0];
                LD v = ffact(d, d) * (LD)C(d, j);
                LD b = (LD)p.bc.s(d)(j);
                LD scale = W * (sc.sigma(0, j) + gfloor * Sg) / rpow<LD>(h, d) + rabs(b);
                double rb = ratio(rabs(v - b), scale);
                if (!(rb <= R.boundary))
                {
                    R.boundary = std::isnan(rb) ? INFINITY : rb;
                    R.boundary_at = 0;
                }
            }
            {
                LD h = p.T[N - 1];
                for (int k = 0; k < nc; ++k)
                    col[k] = (LD)C((N - 1) * nc + k, j);
                PolyVal e = polyDeriv(col.data(), nc, h, d);
                LD b = (LD)p.bc.e(d)(j);
                LD scale = W * (sc.sigma(N - 1, j) + gfloor * Sg) / rpow<LD>(h, d) + rabs(b);
                double rb = ratio(rabs(e.value - b), scale);
                if (!(rb <= R.boundary))
                {
                    R.boundary = std::isnan(rb) ? INFINITY : rb;
                    R.boundary_at = N;
                }
            }
        }
    }
    return R;
}
} // namespace

Scales localScales(const Problem &p, const MatrixXd &C) { return localScalesT(p, C); }
Residuals definingResiduals(const Problem &p, const MatrixXd &C, double gfloor) { return definingResidualsT(p, C, gfloor); }
Residuals definingResidualsLD(const Problem &p, const MatrixXld &C, double gfloor) { return definingResidualsT(p, C, gfloor); }

double coeffError(const Problem &p, const MatrixXd &C, const MatrixXld &Cref, double gfloor, int *at)
{
    const int nc = p.ncoef(), N = p.N, m = p.dim;
    Scales sc = localScalesT(p, Cref);
    double worst = 0;
    for (int i = 0; i < N; ++i)
    {
        LD h = p.T[i];
        for (int j = 0; j < m; ++j)
        {
            LD den = sc.sigma(i, j) + gfloor * sc.sglobal[j];
            LD hk = 1;
            for (int k = 0; k < nc; ++k)
            {
                LD num = rabs((LD)C(i * nc + k, j) - Cref(i * nc + k, j)) * hk;
                LD d2 = den + (k == 0 ? rabs(Cref(i * nc, j)) : (LD)0);
                double r = ratio(num, d2);
                if (!(r <= worst))
                {
                    worst = std::isnan(r) ? INFINITY : r;
                    if (at)
                        *at = i;
                }
                hk *= h;
            }
        }
    }
    return worst;
}
} // namespace vf
